//! C07 (tile ids), C09 (header), C19 (rejection contracts), C14 (compression helpers).
use crate::gen_arch::*;
use crate::gen_common::*;
use crate::ops::guard_chk;
use crate::ops2::*;
use crate::proto::*;
use crate::rng::Rng;
use crate::spec;
use pmtiles2::util;
use pmtiles2::{Compression, Header};
use std::ops::Bound;

// ---------------------------------------------------------------------------------------------
// C07
// ---------------------------------------------------------------------------------------------
/// the PMTiles v3 reference algorithm (zxy_to_tileid of the specification's reference implementation)
pub fn ref_tile_id(z: u8, x: u64, y: u64) -> u64 {
    let mut acc: u64 = 0;
    for i in 0..z {
        acc += 1u64 << (2 * u32::from(i));
    }
    let n: u64 = 1u64 << z;
    let (mut tx, mut ty) = (x, y);
    let mut d: u64 = 0;
    let mut s = n / 2;
    while s > 0 {
        let rx = u64::from((tx & s) > 0);
        let ry = u64::from((ty & s) > 0);
        d += s * s * ((3 * rx) ^ ry);
        // rotate
        if ry == 0 {
            if rx == 1 {
                tx = n - 1 - tx;
                ty = n - 1 - ty;
            }
            std::mem::swap(&mut tx, &mut ty);
        }
        s /= 2;
    }
    acc + d
}

fn chk_hilbert_exhaustive(zmax: u8) -> Result<(), String> {
    for z in 0..=zmax {
        let n = 1u64 << z;
        let base = ref_tile_id(z, 0, 0);
        // inverse and adjacency along the curve
        let mut prev: Option<(u64, u64)> = None;
        for h in 0..n * n {
            let id = base + h;
            let (zz, x, y) = util::zxy(id).map_err(|_| format!("zxy({id}) failed"))?;
            if zz != z || x >= n || y >= n {
                return Err(format!("zxy({id}) = ({zz},{x},{y}) is outside zoom {z}"));
            }
            if util::tile_id(z, x, y) != id {
                return Err(format!("tile_id({z},{x},{y}) = {} but zxy({id}) gave that coordinate", util::tile_id(z, x, y)));
            }
            if ref_tile_id(z, x, y) != id {
                return Err(format!("tile_id({z},{x},{y}) = {id}, the specification says {}", ref_tile_id(z, x, y)));
            }
            if let Some((px, py)) = prev {
                if px.abs_diff(x) + py.abs_diff(y) != 1 {
                    return Err(format!("ids {} and {id} of zoom {z} are not edge-adjacent: ({px},{py}) ({x},{y})", id - 1));
                }
            }
            prev = Some((x, y));
            // children block
            if z < zmax {
                let mut kids: Vec<u64> = Vec::new();
                for (a, b) in [(0, 0), (1, 0), (0, 1), (1, 1)] {
                    kids.push(util::tile_id(z + 1, 2 * x + a, 2 * y + b));
                }
                kids.sort_unstable();
                let cb = ref_tile_id(z + 1, 0, 0) + 4 * h;
                if kids != vec![cb, cb + 1, cb + 2, cb + 3] {
                    return Err(format!("children of {z}/{x}/{y} occupy {kids:?}, expected the block at {cb}"));
                }
            }
        }
        // forward over the grid
        for x in 0..n {
            for y in 0..n {
                let id = util::tile_id(z, x, y);
                if id != ref_tile_id(z, x, y) {
                    return Err(format!("tile_id({z},{x},{y}) = {id}, the specification says {}", ref_tile_id(z, x, y)));
                }
            }
        }
    }
    Ok(())
}
fn chk_hilbert_point(z: u8, x: u64, y: u64) -> Result<(), String> {
    let id = util::tile_id(z, x, y);
    let want = ref_tile_id(z, x, y);
    if id != want {
        return Err(format!("tile_id({z},{x},{y}) = {id}, the specification says {want}"));
    }
    match util::zxy(id) {
        Ok(t) if t == (z, x, y) => Ok(()),
        Ok(t) => Err(format!("zxy({id}) = {t:?}, expected ({z},{x},{y})")),
        Err(_) => Err(format!("zxy({id}) failed")),
    }
}
/// a sequence of conversions on one thread, calls outside the functions' domains in between: every in-domain answer
/// must be the specification's whatever was asked before (memo entries, cached zoom levels, ...)
fn chk_hseq(seed: u64, len: usize) -> Result<(), String> {
    let mut rng = Rng::new(seed);
    let mut prev: Option<(u8, u64, u64)> = None;
    for k in 0..len {
        let z = match rng.below(4) {
            0 => 28 + rng.below(4) as u8,
            1 => rng.below(32) as u8,
            _ => prev.map_or(31, |p| p.0),
        };
        let m = if z == 0 { 0 } else { (1u64 << z) - 1 };
        // related coordinates: the previous point with high / low bits flipped, swapped, or a fresh one
        let (x, y) = match (prev, rng.below(6)) {
            (Some((_, px, py)), 0) => ((px ^ (1u64 << z.saturating_sub(1))) & m, py & m),
            (Some((_, px, py)), 1) => (px & m, (py ^ (1u64 << z.saturating_sub(1))) & m),
            (Some((_, px, py)), 2) => (py & m, px & m),
            (Some((_, px, py)), 3) => ((px ^ (m & !(m >> 3))) & m, py & m),
            (Some((_, px, py)), 4) => ((px ^ 1) & m, py & m),
            _ => (rng.next() & m, rng.next() & m),
        };
        let id = util::tile_id(z, x, y);
        let want = ref_tile_id(z, x, y);
        if id != want {
            return Err(format!("call {k} of a sequence: tile_id({z},{x},{y}) = {id}, the specification says {want} (previous call: {prev:?})"));
        }
        prev = Some((z, x, y));
        match rng.below(5) {
            0 => {
                // outside the domain: zoom >= 32, or coordinates beyond the grid; the answer is not judged
                let zz = 32 + rng.below(40) as u8;
                let _ = std::panic::catch_unwind(|| util::tile_id(zz, x, y));
            }
            1 => {
                let _ = std::panic::catch_unwind(|| util::tile_id(z, x | (1u64 << 40) << z.min(20), y));
            }
            _ => {}
        }
        let probe = match rng.below(6) {
            0 => BASE32 + rng.spread(40),
            1 => u64::MAX - rng.below(1000),
            2 => id,
            3 => ref_tile_id(31, (1 << 31) - 1, 0).wrapping_add(rng.below(3)),
            4 => BASE32 - 1 - rng.below(3),
            _ => rng.spread(63),
        };
        chk_zxy_id(probe).map_err(|e| format!("call {k} of a sequence (after tile_id({z},{x},{y})): {e}"))?;
    }
    Ok(())
}
/// conversions at different zooms on several threads at once (nothing may be shared between calls, let alone threads)
fn chk_hconc(seed: u64, per_thread: usize) -> Result<(), String> {
    let handles: Vec<_> = (0..6u64)
        .map(|t| {
            std::thread::spawn(move || -> Result<(), String> {
                let mut rng = Rng::new(seed ^ (t.wrapping_mul(0x9e37_79b9_7f4a_7c15)));
                let z = [3u8, 9, 17, 24, 30, 31][t as usize];
                let m = (1u64 << z) - 1;
                for k in 0..per_thread {
                    let (x, y) = (rng.next() & m, rng.next() & m);
                    let id = util::tile_id(z, x, y);
                    let want = ref_tile_id(z, x, y);
                    if id != want {
                        return Err(format!("thread {t}, call {k}: tile_id({z},{x},{y}) = {id}, the specification says {want} (other threads convert other zooms at the same time)"));
                    }
                    match util::zxy(want) {
                        Ok(v) if v == (z, x, y) => {}
                        other => return Err(format!("thread {t}, call {k}: zxy({want}) = {other:?}, expected ({z},{x},{y}) (other threads convert other zooms at the same time)")),
                    }
                }
                Ok(())
            })
        })
        .collect();
    for h in handles {
        h.join().map_err(|_| "a conversion thread panicked".to_string())??;
    }
    Ok(())
}
fn chk_zxy_id(id: u64) -> Result<(), String> {
    match util::zxy(id) {
        Ok((z, x, y)) => {
            if id >= BASE32 {
                return Err(format!("zxy({id}) = ({z},{x},{y}) but ids from {BASE32} on have no coordinate"));
            }
            if z > 31 || (x >> z) != 0 || (y >> z) != 0 {
                return Err(format!("zxy({id}) = ({z},{x},{y}) is not inside the grid"));
            }
            if util::tile_id(z, x, y) != id || ref_tile_id(z, x, y) != id {
                return Err(format!("zxy({id}) = ({z},{x},{y}) does not re-encode to the same id"));
            }
            Ok(())
        }
        Err(_) => {
            if id < BASE32 {
                Err(format!("zxy({id}) failed although the id is below the first id of zoom 32"))
            } else {
                Ok(())
            }
        }
    }
}
/// lookup by coordinates outside the grid against an archive holding the aliased in-grid tile
fn chk_lookup_outside(asy: bool, z: u8, x: u64, y: u64) -> Result<(), String> {
    let mut st = fresh(asy);
    // populate: the aliased tile (coordinates reduced modulo the grid), id 0 and a few neighbours
    let zz = z.min(31);
    let mask = if zz == 0 { 0 } else { (1u64 << zz) - 1 };
    let alias = ref_tile_id(zz, x & mask, y & mask);
    let mut ids = vec![0u64, alias, alias + 1, alias.saturating_sub(1)];
    if z <= 31 {
        ids.push(ref_tile_id(z, 0, 0));
    }
    // what the unguarded computation would address (wrapping arithmetic)
    ids.push(ref_tile_id(zz, 0, 0).wrapping_add(x & mask));
    if z == 32 && (x >> 32) == 0 && (y >> 32) == 0 {
        // the reference algorithm carried one zoom too far, in 128-bit arithmetic, truncated as u64 arithmetic would
        let (mut tx, mut ty) = (u128::from(x), u128::from(y));
        let n: u128 = 1 << 32;
        let mut d: u128 = 0;
        let mut sft = n / 2;
        while sft > 0 {
            let rx = u128::from((tx & sft) > 0);
            let ry = u128::from((ty & sft) > 0);
            d += sft * sft * ((3 * rx) ^ ry);
            if ry == 0 {
                if rx == 1 {
                    tx = n - 1 - tx;
                    ty = n - 1 - ty;
                }
                std::mem::swap(&mut tx, &mut ty);
            }
            sft /= 2;
        }
        ids.push((u128::from(BASE32) + d) as u64);
    }
    for id in ids {
        let r = match &mut st {
            St::S(p) => p.add_tile(id, vec![(id % 251) as u8 + 1, 7]),
            St::A(p) => p.add_tile(id, vec![(id % 251) as u8 + 1, 7]),
        };
        r.map_err(|e| format!("add_tile: {e}"))?;
    }
    let in_grid = z <= 31 && (x >> z) == 0 && (y >> z) == 0;
    match get_xyz(&mut st, x, y, z) {
        Err(_) => Err(format!("get_tile({x},{y},{z}) panicked")),
        Ok(Err(_)) => Ok(()),
        Ok(Ok(None)) => {
            if in_grid {
                Err(format!("get_tile({x},{y},{z}) is in the grid and was added, but no tile was returned"))
            } else {
                Ok(())
            }
        }
        Ok(Ok(Some(b))) => {
            if in_grid {
                let want = vec![(ref_tile_id(z, x, y) % 251) as u8 + 1, 7];
                if b == want {
                    Ok(())
                } else {
                    Err(format!("get_tile({x},{y},{z}) returned another tile's bytes"))
                }
            } else {
                Err(format!("get_tile({x},{y},{z}) is outside the grid but returned a tile's bytes"))
            }
        }
    }
}

pub fn gen_c07(rng: &mut Rng, quick: bool, st: &mut Stats) -> Vec<String> {
    let mut c: Vec<String> = Vec::new();
    // model-compared: exhaustive small zooms
    let zex = if quick { 5 } else { 7 };
    for z in 0..=zex {
        let n = 1u64 << z;
        for x in 0..n {
            for y in 0..n {
                c.push(format!("tid {z:x} {x:x} {y:x}"));
            }
        }
        let base = ref_tile_id(z, 0, 0);
        for h in 0..n * n {
            c.push(format!("zxy {:x}", base + h));
        }
    }
    st.add("points_exhaustive_model", c.len() as u64);
    // every zoom: corners, block edges, random points
    for z in 0..=32u8 {
        let n: u128 = 1u128 << z;
        let m = (n - 1) as u64;
        let mut pts: Vec<(u64, u64)> = vec![(0, 0), (m, 0), (0, m), (m, m), (m / 2, (m / 2 + 1) & m), (m / 3, m - m / 3)];
        for _ in 0..(if quick { 12 } else { 100 }) {
            pts.push((rng.next() & m, rng.next() & m));
        }
        for (x, y) in pts {
            if z <= 31 {
                c.push(format!("tid {z:x} {x:x} {y:x}"));
                c.push(format!("chk_hilbert_point {z:x} {x:x} {y:x}"));
                let id = ref_tile_id(z, x, y);
                c.push(format!("zxy {id:x}"));
                c.push(format!("chk_zxy_id {id:x}"));
            }
        }
        if z <= 31 {
            let b = ref_tile_id(z, 0, 0);
            for id in [b.saturating_sub(1), b, b + 1] {
                c.push(format!("zxy {id:x}"));
                c.push(format!("chk_zxy_id {id:x}"));
            }
        }
    }
    for id in [BASE32 - 1, BASE32, BASE32 + 1, u64::MAX, u64::MAX - 1, 1 << 63, (1 << 63) - 1, BASE32 * 2, BASE32 + (1 << 40)] {
        c.push(format!("zxy {id:x}"));
        c.push(format!("chk_zxy_id {id:x}"));
    }
    for _ in 0..(if quick { 200 } else { 5000 }) {
        let id = rng.spread(64);
        c.push(format!("zxy {id:x}"));
        c.push(format!("chk_zxy_id {id:x}"));
    }
    // sequences of conversions on one thread (memoisation must not show)
    for _ in 0..(if quick { 40 } else { 400 }) {
        c.push(format!("chk_hseq {:x} {:x}", rng.next(), 300));
    }
    st.bump("conversion_sequences");
    for _ in 0..(if quick { 3 } else { 12 }) {
        c.push(format!("chk_hconc {:x} {:x}", rng.next(), if quick { 60_000 } else { 400_000 }));
    }
    st.bump("concurrent_conversions");
    // exhaustive direct oracle
    c.push(format!("chk_hilbert_exhaustive {:x}", if quick { 10 } else { 12 }));
    // lookups outside the grid
    let mut outside: Vec<(u8, u64, u64)> = Vec::new();
    for z in [0u8, 1, 2, 3, 7, 15, 16, 30, 31, 32, 33, 63, 64, 65, 128, 255] {
        let n: u64 = if z < 64 { 1u64 << z } else { 0 };
        let ks = [0u64, 1, 3, 5];
        for &k in &ks {
            outside.push((z, n.wrapping_add(k), 0));
            outside.push((z, 0, n.wrapping_add(k)));
            outside.push((z, n.wrapping_add(k), n.wrapping_add(k)));
            outside.push((z, n.wrapping_mul(2).wrapping_add(k), k));
            outside.push((z, k, n.wrapping_mul(3)));
        }
        outside.push((z, u64::MAX, 0));
        outside.push((z, 0, u64::MAX));
        outside.push((z, u64::MAX, u64::MAX));
        outside.push((z, 5, 3));
        if z >= 32 {
            // coordinates that would fit a 2^32 grid: zoom 32 itself is outside the id space
            for (x, y) in [(0u64, 0u64), (u64::from(u32::MAX), 0), (0, u64::from(u32::MAX)), (u64::from(u32::MAX), u64::from(u32::MAX)), (rng.next() >> 32, rng.next() >> 32), (rng.next() >> 33, rng.next() >> 40)] {
                outside.push((z, x, y));
            }
        }
        outside.push((z, rng.next(), rng.next()));
        outside.push((z, n | rng.below(n.max(1)), rng.below(n.max(1))));
        outside.push((z, rng.below(n.max(1)), n | rng.below(n.max(1))));
    }
    st.add("lookups_outside_or_edge", outside.len() as u64);
    for (i, (z, x, y)) in outside.iter().enumerate() {
        let mode = if i % 2 == 0 { "sync" } else { "async" };
        c.push(format!("chk_lookup_outside {mode} {z:x} {x:x} {y:x}"));
        // model comparison: a history holding the aliased tile, then the lookup
        let zz = (*z).min(31);
        let mask = if zz == 0 { 0 } else { (1u64 << zz) - 1 };
        let alias = ref_tile_id(zz, x & mask, y & mask);
        c.push(format!("hist {mode} a:{alias:x}:0a0b;a:0:01;x:{x:x}:{y:x}:{z:x};x:{:x}:{:x}:{zz:x}", x & mask, y & mask));
    }
    c
}

// ---------------------------------------------------------------------------------------------
// C09
// ---------------------------------------------------------------------------------------------
/// exact nearest integer(s) to d * 10^7 for a finite f64: returns (floor of the exact product as i128
/// scaled, whether it is exactly a tie, the nearest integers)
pub fn nearest_e7(d: f64) -> Option<Vec<i64>> {
    if !d.is_finite() {
        return None;
    }
    if d == 0.0 {
        return Some(vec![0]);
    }
    let bits = d.to_bits();
    let sign: i128 = if bits >> 63 == 1 { -1 } else { 1 };
    let exp = ((bits >> 52) & 0x7ff) as i32;
    let frac = (bits & ((1u64 << 52) - 1)) as i128;
    let (m, e) = if exp == 0 { (frac, -1074) } else { (frac | (1i128 << 52), exp - 1075) };
    // value = sign * m * 2^e ; product = m * 10^7 * 2^e
    let p: i128 = m * 10_000_000;
    if e >= 0 {
        if e > 20 {
            return None; // far outside the i32 range anyway
        }
        return Some(vec![(sign * (p << e)) as i64]);
    }
    let sh = (-e) as u32;
    if sh >= 120 {
        return Some(vec![0]); // |product| < 1/2
    }
    let q = p >> sh;
    let r = p - (q << sh);
    let half = 1i128 << (sh - 1);
    let v: Vec<i128> = if r < half {
        vec![q]
    } else if r > half {
        vec![q + 1]
    } else {
        vec![q, q + 1]
    };
    Some(v.into_iter().map(|x| (sign * x) as i64).collect())
}
/// the class of the former defect D7 (repaired in /repo): the f64 product d*1e7 is exactly a half-integer although the
/// exact product is not (double rounding)
pub fn near_tie_class(d: f64) -> bool {
    let p = d * 10_000_000.0;
    if !p.is_finite() || p.abs() >= 4.0e15 {
        return false;
    }
    let is_half = (p * 2.0).fract() == 0.0 && p.fract() != 0.0;
    is_half && nearest_e7(d).map_or(false, |v| v.len() == 1)
}
pub fn quantized(d: f64) -> Option<(i32, f64)> {
    // the stored value the specification asks for, when it is unique and in range
    let v = nearest_e7(d)?;
    if v.len() != 1 || v[0] < i64::from(i32::MIN) || v[0] > i64::from(i32::MAX) {
        return None;
    }
    let i = v[0] as i32;
    Some((i, f64::from(i) / 10_000_000.0))
}

fn chk_hdr_bytes(b: &[u8]) -> Result<(), String> {
    // a valid header: both API families decode it, re-encode to the same bytes, consume exactly 127 bytes
    let sh = spec::decode_header(b).map_err(|e| format!("reference decoder: {e}"))?;
    for asy in [false, true] {
        let (h, rest) = header_dec(asy, b).map_err(|e| format!("valid header rejected (async={asy}): {e}"))?;
        if rest != b.len() - 127 {
            return Err(format!("reader consumed {} bytes instead of 127 (async={asy})", b.len() - rest));
        }
        // ... also when far more than a header follows (a reader must not be drained by read-ahead)
        {
            let mut long = b[..127].to_vec();
            long.extend(std::iter::repeat(0xABu8).take(20_000));
            let pos = if asy {
                let mut cur = futures::io::Cursor::new(long);
                futures::executor::block_on(pmtiles2::Header::from_async_reader(&mut cur)).map_err(|e| format!("valid header rejected: {e}"))?;
                cur.position()
            } else {
                let mut cur = std::io::Cursor::new(long);
                pmtiles2::Header::from_reader(&mut cur).map_err(|e| format!("valid header rejected: {e}"))?;
                cur.position()
            };
            if pos != 127 {
                return Err(format!("the header reader left a 20127-byte stream at position {pos} instead of 127 (async={asy})"));
            }
        }
        let enc = header_enc(asy, &h).map_err(|e| format!("re-encode failed: {e}"))?;
        if enc.len() != 127 {
            return Err(format!("serialised header has {} bytes", enc.len()));
        }
        if enc[..] != b[..127] {
            let pos = enc.iter().zip(b.iter()).position(|(a, b)| a != b).unwrap_or(0);
            return Err(format!("decode then encode changed the bytes at offset {pos} (async={asy})"));
        }
        // field values against the independent decoder
        let got = [
            h.root_directory_offset, h.root_directory_length, h.json_metadata_offset, h.json_metadata_length,
            h.leaf_directories_offset, h.leaf_directories_length, h.tile_data_offset, h.tile_data_length,
            h.num_addressed_tiles, h.num_tile_entries, h.num_tile_content,
        ];
        let want = [sh.root_off, sh.root_len, sh.meta_off, sh.meta_len, sh.leaf_off, sh.leaf_len, sh.data_off, sh.data_len, sh.addressed, sh.entries, sh.contents];
        if got != want || h.clustered != sh.clustered || comp_code(h.internal_compression) != u64::from(sh.icomp)
            || comp_code(h.tile_compression) != u64::from(sh.tcomp) || ttype_code(h.tile_type) != u64::from(sh.ttype)
            || h.min_zoom != sh.minz || h.max_zoom != sh.maxz || h.center_zoom != sh.cz
        {
            return Err("decoded field values differ from the reference decoder".into());
        }
        let cs = [h.min_pos.longitude, h.min_pos.latitude, h.max_pos.longitude, h.max_pos.latitude, h.center_pos.longitude, h.center_pos.latitude];
        for (k, c) in cs.iter().enumerate() {
            if *c != f64::from(sh.coords[k]) / 1e7 {
                return Err(format!("coordinate {k}: stored {} decoded to {c}", sh.coords[k]));
            }
        }
    }
    Ok(())
}
fn chk_hdr_invalid(b: &[u8]) -> Result<(), String> {
    for asy in [false, true] {
        if header_dec(asy, b).is_ok() {
            return Err(format!("invalid header accepted (async={asy})"));
        }
    }
    Ok(())
}
fn chk_hdr_fields(fields: &[&str]) -> Result<(), String> {
    for asy in [false, true] {
        let h = header_of_fields(fields);
        // a header the serialiser refuses (wrong version) first: it must leave no trace in the next call
        {
            let mut bad = header_of_fields(fields);
            bad.spec_version = 4;
            if header_enc(asy, &bad).is_ok() {
                return Err(format!("a header with spec_version 4 was serialised (async={asy})"));
            }
        }
        let enc = header_enc(asy, &h).map_err(|e| format!("encode failed: {e}"))?;
        if enc.len() != 127 {
            return Err(format!("serialised header has {} bytes (async={asy})", enc.len()));
        }
        let sh = spec::decode_header(&enc).map_err(|e| format!("reference decoder rejects the output: {e}"))?;
        let want = header_of_fields(fields);
        let cs = [want.min_pos.longitude, want.min_pos.latitude, want.max_pos.longitude, want.max_pos.latitude, want.center_pos.longitude, want.center_pos.latitude];
        for (k, c) in cs.iter().enumerate() {
            if let Some(v) = nearest_e7(*c) {
                let ok = v.iter().any(|x| *x == i64::from(sh.coords[k]));
                let sat = v.iter().all(|x| *x > i64::from(i32::MAX)) && sh.coords[k] == i32::MAX || v.iter().all(|x| *x < i64::from(i32::MIN)) && sh.coords[k] == i32::MIN;
                if !ok && !sat {
                    // the former defect D7 (repaired): the f64 product is an exact half and is rounded away from zero;
                    // labelled so that its return is recognisable, it is a violation like any other
                    if near_tie_class(*c) && i64::from(sh.coords[k]) == (*c * 10_000_000.0).round() as i64 {
                        return Err(format!("NEARTIE coordinate {c:e} stored as {} but the nearest multiple of 1e-7 is {:?} (double rounding at a half-step tie)", sh.coords[k], v));
                    }
                    return Err(format!("coordinate {c:e} stored as {} but the nearest multiple of 1e-7 is {:?}", sh.coords[k], v));
                }
            }
        }
        let (h2, _) = header_dec(asy, &enc).map_err(|e| format!("decode of own output failed: {e}"))?;
        if header_fields_tok(&h2).split(' ').take(18).collect::<Vec<_>>() != fields[..18].to_vec() || format!("{:x}", h2.center_zoom) != fields[22] {
            return Err("integer / enum fields changed in encode then decode".into());
        }
    }
    Ok(())
}
/// all stored values i in [lo, hi): decode -> encode gives i back (through a full header)
fn chk_coord_sweep(lo: i64, hi: i64, step: i64) -> Result<(), String> {
    let mut base = spec::SHeader {
        root_off: 127, root_len: 0, meta_off: 127, meta_len: 0, leaf_off: 127, leaf_len: 0, data_off: 127, data_len: 0,
        addressed: 0, entries: 0, contents: 0, clustered: true, icomp: 1, tcomp: 1, ttype: 1, minz: 0, maxz: 0, coords: [0; 6], cz: 0,
    };
    let mut i = lo;
    while i < hi {
        let mut k = 0;
        while k < 6 && i < hi {
            base.coords[k] = i as i32;
            i += step;
            k += 1;
        }
        let b = spec::encode_header(&base);
        let h = Header::from_bytes(&b).map_err(|e| format!("decode: {e}"))?;
        let mut out = Vec::new();
        h.to_writer(&mut out).map_err(|e| format!("encode: {e}"))?;
        if out != b {
            let sh = spec::decode_header(&out).map_err(|e| e)?;
            for j in 0..6 {
                if sh.coords[j] != base.coords[j] {
                    return Err(format!("stored coordinate {} is written back as {}", base.coords[j], sh.coords[j]));
                }
            }
            return Err("bytes changed".into());
        }
    }
    Ok(())
}

pub fn rand_header_fields(rng: &mut Rng) -> Vec<String> {
    let u = |rng: &mut Rng| -> u64 {
        match rng.below(6) {
            0 => 0,
            1 => u64::MAX,
            2 => 127,
            3 => 1 << 63,
            _ => rng.spread(64),
        }
    };
    let mut f: Vec<String> = vec!["3".into()];
    for _ in 0..11 {
        f.push(format!("{:x}", u(rng)));
    }
    f.push(format!("{}", rng.below(2)));
    f.push(format!("{:x}", rng.below(5)));
    f.push(format!("{:x}", rng.below(5)));
    f.push(format!("{:x}", rng.below(6)));
    f.push(format!("{:x}", rng.below(256)));
    f.push(format!("{:x}", rng.below(256)));
    for _ in 0..4 {
        f.push(f64_tok(gen_coord(rng)));
    }
    f.push(format!("{:x}", rng.below(256)));
    for _ in 0..2 {
        f.push(f64_tok(gen_coord(rng)));
    }
    f
}
pub fn rand_sheader(rng: &mut Rng) -> spec::SHeader {
    let mut c = [0i32; 6];
    for x in c.iter_mut() {
        *x = match rng.below(8) {
            0 => 21,
            1 => i32::MIN,
            2 => i32::MAX,
            3 => 0,
            4 => -21,
            _ => rng.next() as i32,
        };
    }
    spec::SHeader {
        root_off: rng.spread(64), root_len: rng.spread(64), meta_off: rng.spread(64), meta_len: rng.spread(64),
        leaf_off: rng.spread(64), leaf_len: rng.spread(64), data_off: rng.spread(64), data_len: rng.spread(64),
        addressed: rng.spread(64), entries: rng.spread(64), contents: u64::MAX - rng.spread(20),
        clustered: rng.chance(1, 2), icomp: rng.below(5) as u8, tcomp: rng.below(5) as u8, ttype: rng.below(6) as u8,
        minz: rng.below(256) as u8, maxz: rng.below(256) as u8, coords: c, cz: rng.below(256) as u8,
    }
}

/// the header inside a written archive: the six coordinates given to the archive arrive in the header exactly as
/// `Header` itself stores them (no re-ordering, clamping or normalising on the way), and opening hands back what
/// the stored values decode to
fn chk_hdr_in_archive(asy: bool, coords: [f64; 6]) -> Result<(), String> {
    use futures::executor::block_on;
    let mut h = pmtiles2::Header::default();
    h.min_pos.longitude = coords[0];
    h.min_pos.latitude = coords[1];
    h.max_pos.longitude = coords[2];
    h.max_pos.latitude = coords[3];
    h.center_pos.longitude = coords[4];
    h.center_pos.latitude = coords[5];
    let hb = header_enc(asy, &h).map_err(|e| format!("encode failed: {e}"))?;
    let bytes: Vec<u8> = if asy {
        let mut p = pmtiles2::PMTiles::new_async(pmtiles2::TileType::Png, Compression::None);
        (p.min_longitude, p.min_latitude, p.max_longitude, p.max_latitude, p.center_longitude, p.center_latitude) = (coords[0], coords[1], coords[2], coords[3], coords[4], coords[5]);
        p.add_tile(3, vec![1u8, 2]).map_err(|e| e.to_string())?;
        let mut out = futures::io::Cursor::new(Vec::new());
        block_on(p.to_async_writer(&mut out)).map_err(|e| format!("to_async_writer: {e}"))?;
        out.into_inner()
    } else {
        let mut p = pmtiles2::PMTiles::new(pmtiles2::TileType::Png, Compression::None);
        (p.min_longitude, p.min_latitude, p.max_longitude, p.max_latitude, p.center_longitude, p.center_latitude) = (coords[0], coords[1], coords[2], coords[3], coords[4], coords[5]);
        p.add_tile(3, vec![1u8, 2]).map_err(|e| e.to_string())?;
        let mut out = std::io::Cursor::new(Vec::new());
        p.to_writer(&mut out).map_err(|e| format!("to_writer: {e}"))?;
        out.into_inner()
    };
    if bytes.len() < 127 {
        return Err("archive shorter than a header".into());
    }
    for (name, at) in [("min longitude", 102usize), ("min latitude", 106), ("max longitude", 110), ("max latitude", 114), ("center longitude", 119), ("center latitude", 123)] {
        if bytes[at..at + 4] != hb[at..at + 4] {
            let got = i32::from_le_bytes([bytes[at], bytes[at + 1], bytes[at + 2], bytes[at + 3]]);
            let want = i32::from_le_bytes([hb[at], hb[at + 1], hb[at + 2], hb[at + 3]]);
            return Err(format!("the archive's header stores {got} as {name}, a header given the same six coordinates {coords:?} stores {want}"));
        }
    }
    let sh = spec::decode_header(&bytes[..127]).map_err(|e| format!("reference decoder rejects the archive's header: {e}"))?;
    let back: [f64; 6] = if asy {
        let p = block_on(pmtiles2::PMTiles::from_async_reader(futures::io::Cursor::new(bytes.clone()))).map_err(|e| format!("open: {e}"))?;
        [p.min_longitude, p.min_latitude, p.max_longitude, p.max_latitude, p.center_longitude, p.center_latitude]
    } else {
        let p = pmtiles2::PMTiles::from_bytes(&bytes[..]).map_err(|e| format!("open: {e}"))?;
        [p.min_longitude, p.min_latitude, p.max_longitude, p.max_latitude, p.center_longitude, p.center_latitude]
    };
    for k in 0..6 {
        let want = f64::from(sh.coords[k]) / 1e7;
        if back[k].to_bits() != want.to_bits() {
            return Err(format!("coordinate #{k} stored as {} is handed back as {:e} on opening, it decodes to {want:e}", sh.coords[k], back[k]));
        }
    }
    // the opened archive gets each coordinate moved by 0.6e-7 degrees (to the next multiple of 1e-7 or not, depending
    // on where it was) and is saved: the header is the one `Header` writes for the edited values; an archive whose tile
    // type is Unknown and whose first tile looks like an image keeps its tile type
    if !asy {
        for (tt, first) in [(pmtiles2::TileType::Unknown, &b"\x89PNG\r\n\x1a\n0000"[..]), (pmtiles2::TileType::Unknown, &b"\xff\xd8\xff\xe0JFIF"[..]), (pmtiles2::TileType::Mvt, &b"RIFF0000WEBPVP8 "[..])] {
            let mut p = pmtiles2::PMTiles::from_bytes(&bytes[..]).map_err(|e| format!("open: {e}"))?;
            p.tile_type = tt;
            p.add_tile(0, first.to_vec()).map_err(|e| e.to_string())?;
            let edited: Vec<f64> = back.iter().enumerate().map(|(k, v)| v + if k % 2 == 0 { 0.6e-7 } else { -0.6e-7 }).collect();
            (p.min_longitude, p.min_latitude, p.max_longitude, p.max_latitude, p.center_longitude, p.center_latitude) = (edited[0], edited[1], edited[2], edited[3], edited[4], edited[5]);
            let mut out = std::io::Cursor::new(Vec::new());
            p.to_writer(&mut out).map_err(|e| format!("to_writer after editing: {e}"))?;
            let out = out.into_inner();
            let mut hh = pmtiles2::Header::default();
            (hh.min_pos.longitude, hh.min_pos.latitude, hh.max_pos.longitude, hh.max_pos.latitude, hh.center_pos.longitude, hh.center_pos.latitude) = (edited[0], edited[1], edited[2], edited[3], edited[4], edited[5]);
            let hb2 = header_enc(false, &hh).map_err(|e| format!("encode failed: {e}"))?;
            if out[102..127] != hb2[102..127] {
                return Err(format!("an opened archive whose coordinates were moved by 0.6e-7 degrees to {edited:?} is saved with other stored coordinates than a header given those values"));
            }
            let want_tt = spec::encode_header(&spec::SHeader { ttype: match tt { pmtiles2::TileType::Unknown => 0, _ => 1 }, ..spec::decode_header(&out[..127]).map_err(|e| e.to_string())? })[99];
            if out[99] != want_tt {
                return Err(format!("an archive with tile type {tt:?} is saved with tile-type byte {} (its first tile begins like an image file)", out[99]));
            }
        }
    }
    Ok(())
}
pub fn gen_c09(rng: &mut Rng, quick: bool, st: &mut Stats) -> Vec<String> {
    let mut c: Vec<String> = Vec::new();
    // coordinates as they travel through a whole archive: boxes crossing the antimeridian (min > max), values beyond
    // +-180 / +-90 (the stored i32 reaches +-214.7483647), poles, sub-resolution values
    {
        let mut sets: Vec<[f64; 6]> = vec![
            [170.0, -10.0, -170.0, 10.0, 180.0, 0.0],
            [179.9999999, 85.0, -179.9999999, -85.0, -180.0, 90.0],
            [200.5, -95.25, 214.7483647, 100.0, -214.7483648, -120.5],
            [-214.7483648, 214.7483647, 190.0, -190.0, 181.0, 91.0],
            [5e-8, -5e-8, 1e-7, -1e-7, 4.9e-8, -0.0],
            // a centre of exactly (0, 0) inside lopsided bounds; bounds of exactly 0; every field 0
            [-10.0, -20.0, 50.0, 80.0, 0.0, 0.0],
            [10.0, 20.0, 50.0, 80.0, 0.0, 0.0],
            [0.0, 0.0, 0.0, 0.0, 12.5, -7.25],
            [0.0, 0.0, 0.0, 0.0, 0.0, 0.0],
            [-180.0, -85.0511287, 180.0, 85.0511287, 0.0, 0.0],
        ];
        for _ in 0..(if quick { 20 } else { 300 }) {
            let mut v = [0f64; 6];
            for x in v.iter_mut() {
                *x = if rng.chance(1, 3) { (rng.next() as i32 as f64) / 1e7 } else { crate::gen_arch::gen_coord(rng) };
            }
            sets.push(v);
        }
        for (k, v) in sets.iter().enumerate() {
            c.push(format!("chk_hdr_in_archive {} {}", if k % 2 == 0 { "sync" } else { "async" }, v.iter().map(|x| f64_tok(*x)).collect::<Vec<_>>().join(" ")));
            st.bump("headers_inside_archives");
        }
    }
    let n = if quick { 150 } else { 3000 };
    for i in 0..n {
        let mode = if i % 2 == 0 { "sync" } else { "async" };
        let b = spec::encode_header(&rand_sheader(rng));
        let mut bb = b.clone();
        bb.extend_from_slice(&rng.bytes((i % 4) as usize));
        c.push(format!("hdr_dec {mode} {}", hex_bytes(&bb)));
        c.push(format!("chk_hdr_bytes {}", hex_bytes(&bb)));
        let f = rand_header_fields(rng);
        c.push(format!("hdr_enc {mode} {}", f.join(" ")));
        c.push(format!("chk_hdr_fields {}", f.join(" ")));
    }
    st.add("headers_random", 2 * n);
    // every enum code 0..255 at the three enum bytes and the clustered byte; version; magic; truncation
    let good = spec::encode_header(&rand_sheader(rng));
    for pos in [96usize, 97, 98, 99] {
        for v in 0..=255u8 {
            let mut b = good.clone();
            b[pos] = v;
            let mode = if v % 2 == 0 { "sync" } else { "async" };
            c.push(format!("hdr_dec {mode} {}", hex_bytes(&b)));
            let valid = match pos {
                96 => v <= 1,
                97 | 98 => v <= 4,
                _ => v <= 5,
            };
            c.push(format!("{} {}", if valid { "chk_hdr_bytes" } else { "chk_hdr_invalid" }, hex_bytes(&b)));
        }
    }
    st.add("enum_and_flag_codes", 4 * 256);
    for v in 0..=255u8 {
        if v != 3 {
            let mut b = good.clone();
            b[7] = v;
            c.push(format!("hdr_dec sync {}", hex_bytes(&b)));
            c.push(format!("chk_hdr_invalid {}", hex_bytes(&b)));
        }
    }
    for pos in 0..7 {
        let mut b = good.clone();
        b[pos] ^= 1 << rng.below(8);
        c.push(format!("hdr_dec async {}", hex_bytes(&b)));
        c.push(format!("chk_hdr_invalid {}", hex_bytes(&b)));
    }
    for l in 0..127usize {
        let mode = if l % 2 == 0 { "sync" } else { "async" };
        c.push(format!("hdr_dec {mode} {}", hex_bytes(&good[..l])));
        c.push(format!("chk_hdr_invalid {}", hex_bytes(&good[..l])));
    }
    st.add("truncations", 127);
    // stored coordinate values: boundaries + strided sweep (thorough: all 2^32)
    for i in [i64::from(i32::MIN), -1, 0, 1, 20, 21, 22, i64::from(i32::MAX) - 5] {
        c.push(format!("chk_coord_sweep {:x} {:x} 1", (i - i64::from(i32::MIN)) as u64, (i + 6 - i64::from(i32::MIN)) as u64));
    }
    if quick {
        // 16 slices of 2^16 consecutive values + a stride over everything
        for k in 0..16u64 {
            let lo = k * (1 << 28) + rng.below(1 << 27);
            c.push(format!("chk_coord_sweep {lo:x} {:x} 1", lo + (1 << 16)));
        }
        c.push(format!("chk_coord_sweep {:x} {:x} {:x}", rng.below(4099), 1u64 << 32, 4099));
    } else {
        for k in 0..256u64 {
            c.push(format!("chk_coord_sweep {:x} {:x} 1", k << 24, (k + 1) << 24));
        }
    }
    // model comparison of the coordinate conversions alone
    for _ in 0..(if quick { 300 } else { 3000 }) {
        let mut f = rand_header_fields(rng);
        // only the coordinates vary
        for k in 1..12 {
            f[k] = "0".into();
        }
        c.push(format!("hdr_enc sync {}", f.join(" ")));
    }
    c
}

// ---------------------------------------------------------------------------------------------
// C19
// ---------------------------------------------------------------------------------------------
fn chk_zero_len_dir(es: &[pmtiles2::Entry]) -> Result<(), String> {
    // serialiser refuses; parser refuses the specification-level encoding of the same list
    for &c in &ALL_COMP {
        for asy in [false, true] {
            match std::panic::catch_unwind(|| crate::ops::dir_enc(asy, c, es)) {
                Err(_) => return Err("serialiser panicked".into()),
                Ok(Ok(_)) => return Err(format!("serialiser accepted an entry of length 0 ({} async={asy})", comp_tok(c))),
                Ok(Err(_)) => {}
            }
            let ses: Vec<spec::SEntry> = es.iter().map(|e| spec::SEntry { id: e.tile_id, off: e.offset, len: e.length, run: e.run_length }).collect();
            let bytes = spec::codec_compress(comp_code(c) as u8, &spec::encode_dir(&ses));
            match std::panic::catch_unwind(|| crate::ops::dir_dec(asy, c, &bytes)) {
                Err(_) => return Err("parser panicked".into()),
                Ok(Ok(_)) => return Err(format!("parser accepted an entry of length 0 ({} async={asy})", comp_tok(c))),
                Ok(Err(_)) => {}
            }
        }
    }
    Ok(())
}
/// hand-made directory bytes with over-wide length fields: the parsers must never yield an entry of length 0
fn chk_dir_refused(c: Compression, plain: &[u8]) -> Result<(), String> {
    let bytes = spec::codec_compress(comp_code(c) as u8, plain);
    for asy in [false, true] {
        match std::panic::catch_unwind(|| crate::ops::dir_dec(asy, c, &bytes)) {
            Err(_) => return Err("parser panicked".into()),
            Ok(Ok(es)) => {
                // (a wide length whose low 32 bits are not zero is truncated by the varint reader; the contract at stake
                // here is only that no entry of length 0 ever comes out)
                if es.iter().any(|e| e.length == 0) {
                    return Err(format!("parser returned an entry of length 0 ({} async={asy})", comp_tok(c)));
                }
            }
            Ok(Err(_)) => {}
        }
    }
    Ok(())
}
/// `ops` ends with the refused operation; state before and after must be equal
fn chk_empty_add(mode: &str, prefix: &str, id: u64) -> Result<(), String> {
    let probe = "l;n;p;q";
    let run = |ops: &str| run_hist(mode, ops);
    let pre = if prefix == "-" { String::new() } else { format!("{prefix};") };
    let before = run(&format!("{pre}{probe}"));
    let after = run(&format!("{pre}a:{id:x}:-;{probe}"));
    let bs = before.strip_prefix("ok ").unwrap_or(&before);
    let as_ = after.strip_prefix("ok ").unwrap_or(&after);
    let b: Vec<&str> = bs.split('|').collect();
    let a: Vec<&str> = as_.split('|').collect();
    if a.len() != b.len() + 1 || b.len() < 4 {
        return Err(format!("unexpected history output {after}"));
    }
    let (na, nb) = (a.len(), b.len());
    if a[na - 5] != "err" {
        return Err(format!("adding an empty tile returned {} instead of an error", a[na - 5]));
    }
    if a[na - 4..] != b[nb - 4..] {
        return Err("the refused add_tile changed the archive".to_string());
    }
    Ok(())
}
fn chk_meta_shape(asy: bool, c: u8, json: &[u8]) -> Result<(), String> {
    // an otherwise valid archive whose metadata is valid JSON but not an object
    let mut st = Stats::default();
    let mut r = Rng::new(7);
    let mut f = gen_foreign(&mut r, &ForeignOpts { n: 3, depth: 0, icomp: c, permute: false, unordered: false, empty_meta: true, merge_runs: true, unknown_counts: false, multi_frame: false }, &mut st);
    let meta = spec::codec_compress(c, json);
    let mut h = f.header.clone();
    h.meta_off = f.bytes.len() as u64;
    h.meta_len = meta.len() as u64;
    f.bytes.extend_from_slice(&meta);
    f.bytes[0..127].copy_from_slice(&spec::encode_header(&h));
    let is_obj = matches!(serde_json::from_slice::<serde_json::Value>(json), Ok(serde_json::Value::Object(_)));
    match std::panic::catch_unwind(|| open(asy, f.bytes.clone(), (Bound::Unbounded, Bound::Unbounded)).map(|_| ())) {
        Err(_) => Err("opening panicked".into()),
        Ok(Ok(())) if !is_obj => Err(format!("metadata {:?} is not a JSON object but the archive opened", String::from_utf8_lossy(json))),
        Ok(Err(e)) if is_obj => Err(format!("object metadata refused: {e}")),
        _ => Ok(()),
    }
}
fn chk_unknown(asy: bool, with_meta: bool, ntiles: u64) -> Result<(), String> {
    // writing with Unknown internal compression
    let mut st = fresh(asy);
    for id in 0..ntiles {
        match &mut st {
            St::S(p) => p.add_tile(id, vec![1, 2, 3]).unwrap(),
            St::A(p) => p.add_tile(id, vec![1, 2, 3]).unwrap(),
        }
    }
    match &mut st {
        St::S(p) => p.internal_compression = Compression::Unknown,
        St::A(p) => p.internal_compression = Compression::Unknown,
    }
    let (r, _) = write_to(st, crate::streams::Core::new(Vec::new(), 0));
    match r {
        Err(_) => return Err("to_writer with Unknown compression panicked".into()),
        Ok(Ok(())) => return Err("to_writer with Unknown internal compression succeeded".into()),
        Ok(Err(_)) => {}
    }
    // opening a header that declares Unknown
    let mut s2 = Stats::default();
    let mut r = Rng::new(ntiles + 11);
    let f = gen_foreign(&mut r, &ForeignOpts { n: ntiles as usize, depth: 0, icomp: 1, permute: false, unordered: false, empty_meta: !with_meta, merge_runs: true, unknown_counts: false, multi_frame: false }, &mut s2);
    let mut h = f.header.clone();
    h.icomp = 0;
    let mut b = f.bytes.clone();
    b[0..127].copy_from_slice(&spec::encode_header(&h));
    match std::panic::catch_unwind(|| open(asy, b.clone(), (Bound::Unbounded, Bound::Unbounded)).map(|_| ())) {
        Err(_) => return Err("opening an archive declaring Unknown compression panicked".into()),
        Ok(Ok(())) => return Err(format!("an archive declaring Unknown internal compression opened (metadata present: {with_meta})")),
        Ok(Err(_)) => {}
    }
    // ... also when the sections it would have to decode are declared empty
    for (zero_root, zero_meta) in [(true, false), (true, true), (false, true)] {
        let mut h2 = h.clone();
        if zero_root {
            h2.root_len = 0;
        }
        if zero_meta {
            h2.meta_len = 0;
        }
        let mut b2 = b.clone();
        b2[0..127].copy_from_slice(&spec::encode_header(&h2));
        for rg in [(Bound::Unbounded, Bound::Unbounded), (Bound::Included(1), Bound::Excluded(1))] {
            match std::panic::catch_unwind(|| open(asy, b2.clone(), rg).map(|_| ())) {
                Err(_) => return Err("opening an archive declaring Unknown compression panicked".into()),
                Ok(Ok(())) => return Err(format!("an archive declaring Unknown internal compression opened (root directory length zeroed: {zero_root}, metadata length zeroed: {zero_meta})")),
                Ok(Err(_)) => {}
            }
        }
    }
    Ok(())
}

fn c_push_refused(c: &mut Vec<String>, asy: bool, comp: Compression, es: &[pmtiles2::Entry]) {
    c.push(format!("chk_ser_refuses {} {} {}", if asy { "async" } else { "sync" }, comp_tok(comp), entries_tok(es)));
}
pub fn gen_c19(rng: &mut Rng, quick: bool, st: &mut Stats) -> Vec<String> {
    let mut c: Vec<String> = Vec::new();
    // zero-length entry at every index of directories of several sizes
    let sizes: Vec<usize> = if quick { vec![1, 2, 3, 7, 40] } else { vec![1, 2, 3, 4, 7, 40, 300] };
    for &n in &sizes {
        let base = valid_entries(rng, n, true, false, st);
        let idxs: Vec<usize> = if n <= 8 { (0..base.len()).collect() } else { vec![0, 1, base.len() / 2, base.len() - 2, base.len() - 1] };
        for i in idxs {
            let mut es = base.clone();
            es[i].length = 0;
            let et = entries_tok(&es);
            c.push(format!("chk_zero_len_dir {et}"));
            for (k, comp) in ALL_COMP.iter().enumerate() {
                let mode = if (i + k) % 2 == 0 { "sync" } else { "async" };
                c.push(format!("dir_enc {mode} {} {et}", comp_tok(*comp)));
                let ses: Vec<spec::SEntry> = es.iter().map(|e| spec::SEntry { id: e.tile_id, off: e.offset, len: e.length, run: e.run_length }).collect();
                let bytes = spec::codec_compress(comp_code(*comp) as u8, &spec::encode_dir(&ses));
                c.push(format!("dir_dec {mode} {} {}", comp_tok(*comp), hex_bytes(&bytes)));
            }
            st.bump("zero_length_positions");
        }
    }
    // the refused entry repeats the tile id of its neighbour (nothing may drop it before it is looked at)
    for (k, dup_next) in [false, true, false].iter().enumerate() {
        let base = valid_entries(rng, 3 + k, true, false, st);
        let i = k % base.len();
        let mut es = base.clone();
        let mut z = base[i];
        z.length = 0;
        if *dup_next { es.insert(i, z) } else { es.insert(i + 1, z) }
        for &comp in &ALL_COMP {
            for asy in [false, true] {
                c_push_refused(&mut c, asy, comp, &es);
            }
        }
        st.bump("zero_length_entry_repeating_an_id");
    }
    // the refused entry carries extreme values in its other fields (the refusal itself must not compute with them)
    for (k, (id, off, run)) in [(u64::MAX, 7u64, 1u32), (u64::MAX - 3, 7, u32::MAX), (u64::MAX, u64::MAX, u32::MAX), (9, u64::MAX, 1), (u64::MAX - 1, 0, 2), (1 << 63, 1 << 63, 0)].iter().enumerate() {
        let mut es = valid_entries(rng, k % 3, true, false, st);
        es.retain(|e| e.tile_id < 1 << 40);
        es.push(pmtiles2::Entry { tile_id: *id, offset: *off, length: 0, run_length: *run });
        c.push(format!("chk_zero_len_dir {}", entries_tok(&es)));
        st.bump("zero_length_entry_with_extreme_fields");
    }
    // length fields that are zero only after narrowing to 32 bits (non-zero multiples of 2^32), and other over-wide lengths
    for (k, len) in [1u64 << 32, 2 << 32, 3 << 32, (1 << 32) + 5, 1 << 35, 1 << 63, u64::MAX].iter().enumerate() {
        for (j, pos) in [0usize, 1].iter().enumerate() {
            // two entries; the wide length sits in the first or the last one
            let mut plain = Vec::new();
            for v in [2u64, 5, 4, 1, 1] {
                spec::put_varint(v, &mut plain);
            }
            spec::put_varint(if *pos == 0 { *len } else { 7 }, &mut plain);
            spec::put_varint(if *pos == 1 { *len } else { 7 }, &mut plain);
            for v in [1u64, 0] {
                spec::put_varint(v, &mut plain);
            }
            let comp = ALL_COMP[(k + j) % 4];
            c.push(format!("chk_dir_refused {} {}", comp_tok(comp), hex_bytes(&plain)));
            c.push(format!("dir_dec {} none {}", if (k + j) % 2 == 0 { "sync" } else { "async" }, hex_bytes(&plain)));
            st.bump("lengths_wider_than_32_bits");
        }
    }
    // empty add at every point of a history (fresh ids, existing in-memory ids, reader-backed ids)
    let hist: Vec<String> = vec!["a:5:0102".into(), "a:6:0102".into(), "a:9:07".into(), "r:6".into(), "s:X:X".into(), "a:6:0909".into(), "a:7:07".into()];
    for mode in ["sync", "async"] {
        let m = &mode[..1];
        for k in 0..=hist.len() {
            let prefix = if k == 0 { "-".to_string() } else { hist[..k].join(";").replace('X', m) };
            for id in [5u64, 6, 7, 9, 1000] {
                c.push(format!("chk_empty_add {mode} {prefix} {id:x}"));
                let pre = if k == 0 { String::new() } else { format!("{};", hist[..k].join(";").replace('X', m)) };
                c.push(format!("hist {mode} {pre}p;a:{id:x}:-;p;l;n;g:{id:x}"));
                st.bump("empty_add_points");
            }
        }
    }
    // metadata shapes
    let shapes: Vec<&[u8]> = vec![b"null", b"true", b"false", b"0", b"-1.5e3", b"\"x\"", b"[]", b"[{}]", b"[1,2]", b"\"{}\"", b" 7 ", b"{}", b"{\"a\":[1]}"];
    // long non-object values with multi-byte characters at every offset (a refusal must not slice their text blindly)
    let mut long_shapes: Vec<Vec<u8>> = Vec::new();
    for pad in [0usize, 1, 2, 3, 17, 44, 45, 46, 47, 60, 125, 126, 127, 254, 255, 1021] {
        let mut t = String::from("\"");
        t.push_str(&"a".repeat(pad));
        t.push_str(&"\u{e9}\u{65e5}\u{1f600}".repeat(40));
        t.push('"');
        long_shapes.push(t.clone().into_bytes());
        long_shapes.push(format!("[{t},{t}]").into_bytes());
    }
    for (k, s) in long_shapes.iter().enumerate() {
        let comp = 1 + (k % 4) as u8;
        c.push(format!("chk_meta_shape {} {comp:x} {}", if k % 2 == 0 { "sync" } else { "async" }, hex_bytes(s)));
        st.bump("metadata_long_non_objects_with_multibyte_text");
    }
    for (k, s) in shapes.iter().enumerate() {
        for comp in 1..=4u8 {
            let mode = if (k + comp as usize) % 2 == 0 { "sync" } else { "async" };
            c.push(format!("chk_meta_shape {mode} {comp:x} {}", hex_bytes(s)));
            st.bump("metadata_shapes");
        }
    }
    // the same through the model: archives with such metadata
    for (k, s) in shapes.iter().enumerate() {
        let comp = 1 + (k % 4) as u8;
        let mut s2 = Stats::default();
        let mut r = Rng::new(7);
        let mut f = gen_foreign(&mut r, &ForeignOpts { n: 3, depth: 0, icomp: comp, permute: false, unordered: false, empty_meta: true, merge_runs: true, unknown_counts: false, multi_frame: false }, &mut s2);
        let meta = spec::codec_compress(comp, s);
        let mut h = f.header.clone();
        h.meta_off = f.bytes.len() as u64;
        h.meta_len = meta.len() as u64;
        f.bytes.extend_from_slice(&meta);
        f.bytes[0..127].copy_from_slice(&spec::encode_header(&h));
        let mode = if k % 2 == 0 { "sync" } else { "async" };
        c.push(format!("hist {mode} o:{}:u_u:{};l;q", &mode[..1], hex_bytes(&f.bytes)));
    }
    // unknown compression
    for asy in ["sync", "async"] {
        for with_meta in [0, 1] {
            for n in [0u64, 1, 5] {
                c.push(format!("chk_unknown {asy} {with_meta} {n:x}"));
            }
        }
        let m = &asy[..1];
        c.push(format!("hist {asy} c:unknown;s:{m}:{m};l"));
        c.push(format!("hist {asy} a:1:01;a:2:02;c:unknown;s:{m}:{m};l;n"));
        c.push(format!("hist {asy} a:1:01;m:7b2261223a317d;c:unknown;w:{m}:0:-;l"));
        for with_meta in [false, true] {
            let mut s2 = Stats::default();
            let mut r = Rng::new(3);
            let f = gen_foreign(&mut r, &ForeignOpts { n: 4, depth: 0, icomp: 1, permute: false, unordered: false, empty_meta: !with_meta, merge_runs: true, unknown_counts: false, multi_frame: false }, &mut s2);
            let mut h = f.header.clone();
            h.icomp = 0;
            let mut b = f.bytes.clone();
            b[0..127].copy_from_slice(&spec::encode_header(&h));
            c.push(format!("hist {asy} o:{m}:u_u:{};l;n", hex_bytes(&b)));
            // the same with the root directory (and the metadata) declared empty
            let mut h2 = h.clone();
            h2.root_len = 0;
            h2.meta_len = 0;
            b[0..127].copy_from_slice(&spec::encode_header(&h2));
            c.push(format!("hist {asy} o:{m}:u_u:{};l;n", hex_bytes(&b)));
        }
        for comp in ALL_COMP {
            c.push(format!("dir_enc {asy} unknown {}", entries_tok(&valid_entries(rng, 3, false, false, st))));
            c.push(format!("dir_dec {asy} unknown {}", hex_bytes(&spec::codec_compress(comp_code(comp) as u8, &[1, 1, 1, 1, 1]))));
        }
    }
    c
}

pub fn run_chk(toks: &[&str]) -> Option<String> {
    Some(match toks {
        ["chk_hilbert_exhaustive", z] => {
            let z = unhex_u64(z) as u8;
            guard_chk(|| chk_hilbert_exhaustive(z))
        }
        ["chk_hilbert_point", z, x, y] => {
            let (z, x, y) = (unhex_u64(z) as u8, unhex_u64(x), unhex_u64(y));
            guard_chk(|| chk_hilbert_point(z, x, y))
        }
        ["chk_zxy_id", id] => {
            let id = unhex_u64(id);
            guard_chk(|| chk_zxy_id(id))
        }
        ["chk_hdr_in_archive", mode, a, b, c, d, e, f] => {
            let v = [parse_f64(a), parse_f64(b), parse_f64(c), parse_f64(d), parse_f64(e), parse_f64(f)];
            let asy = *mode == "async";
            guard_chk(|| chk_hdr_in_archive(asy, v))
        }
        ["chk_hconc", seed, n] => {
            let (seed, n) = (unhex_u64(seed), unhex_u64(n) as usize);
            guard_chk(|| chk_hconc(seed, n))
        }
        ["chk_hseq", seed, len] => {
            let (seed, len) = (unhex_u64(seed), unhex_u64(len) as usize);
            guard_chk(|| chk_hseq(seed, len))
        }
        ["chk_lookup_outside", mode, z, x, y] => {
            let (z, x, y) = (unhex_u64(z) as u8, unhex_u64(x), unhex_u64(y));
            let asy = *mode == "async";
            guard_chk(|| chk_lookup_outside(asy, z, x, y))
        }
        ["chk_hdr_bytes", b] => {
            let b = unhex_bytes(b);
            guard_chk(|| chk_hdr_bytes(&b))
        }
        ["chk_hdr_invalid", b] => {
            let b = unhex_bytes(b);
            guard_chk(|| chk_hdr_invalid(&b))
        }
        ["chk_hdr_fields", f @ ..] => guard_chk(|| chk_hdr_fields(f)),
        ["chk_coord_sweep", lo, hi, step] => {
            let (lo, hi, step) = (unhex_u64(lo) as i64 + i64::from(i32::MIN), unhex_u64(hi) as i64 + i64::from(i32::MIN), unhex_u64(step) as i64);
            guard_chk(|| chk_coord_sweep(lo, hi, step))
        }
        ["chk_dir_refused", c, b] => {
            let (c, b) = (parse_comp(c), unhex_bytes(b));
            guard_chk(|| chk_dir_refused(c, &b))
        }
        ["chk_ser_refuses", mode, c, es] => {
            // the serialisers refuse a list holding a zero-length entry, whatever else is odd about the list
            let (asy, c, es) = (*mode == "async", parse_comp(c), parse_entries(es));
            guard_chk(|| match std::panic::catch_unwind(|| crate::ops::dir_enc(asy, c, &es)) {
                Err(_) => Err("serialiser panicked".into()),
                Ok(Ok(_)) if c != Compression::Unknown => Err(format!("serialiser accepted a list with an entry of length 0 ({} async={asy})", comp_tok(c))),
                _ => Ok(()),
            })
        }
        ["chk_zero_len_dir", es] => {
            let es = parse_entries(es);
            guard_chk(|| chk_zero_len_dir(&es))
        }
        ["chk_empty_add", mode, prefix, id] => {
            let id = unhex_u64(id);
            guard_chk(|| chk_empty_add(mode, prefix, id))
        }
        ["chk_meta_shape", mode, c, j] => {
            let (c, j) = (unhex_u64(c) as u8, unhex_bytes(j));
            let asy = *mode == "async";
            guard_chk(|| chk_meta_shape(asy, c, &j))
        }
        ["chk_unknown", mode, wm, n] => {
            let asy = *mode == "async";
            let (wm, n) = (*wm == "1", unhex_u64(n));
            guard_chk(|| chk_unknown(asy, wm, n))
        }
        _ => return None,
    })
}
