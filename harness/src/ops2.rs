//! Archive-level operations of the protocol: tile ids, header, directory spill, directory reading,
//! edit histories (see driver/driver.ml for the model side; the output formats must match).
use crate::ops::guard;
use crate::proto::*;
use crate::streams::{log_tok, AsyncStream, Core, SyncStream};
use futures::executor::block_on;
use pmtiles2::util::{self, WriteDirsOverflowStrategy};
use pmtiles2::{Compression, Header, PMTiles, TileType};
use std::collections::BTreeMap;
use std::io::Cursor;
use std::ops::Bound;
use std::panic::{catch_unwind, AssertUnwindSafe};

pub fn ttype_of_code(n: u64) -> TileType {
    match n {
        0 => TileType::Unknown,
        1 => TileType::Mvt,
        2 => TileType::Png,
        3 => TileType::Jpeg,
        4 => TileType::WebP,
        5 => TileType::AVIF,
        _ => panic!("bad tile type code"),
    }
}
pub fn ttype_code(t: TileType) -> u64 {
    match t {
        TileType::Unknown => 0,
        TileType::Mvt => 1,
        TileType::Png => 2,
        TileType::Jpeg => 3,
        TileType::WebP => 4,
        TileType::AVIF => 5,
    }
}
pub fn comp_of_code(n: u64) -> Compression {
    match n {
        0 => Compression::Unknown,
        1 => Compression::None,
        2 => Compression::GZip,
        3 => Compression::Brotli,
        4 => Compression::ZStd,
        _ => panic!("bad compression code"),
    }
}
pub fn comp_code(c: Compression) -> u64 {
    match c {
        Compression::Unknown => 0,
        Compression::None => 1,
        Compression::GZip => 2,
        Compression::Brotli => 3,
        Compression::ZStd => 4,
    }
}
/// f64 as its bit pattern, all NaNs canonicalised
pub fn f64_tok(f: f64) -> String {
    if f.is_nan() {
        "7ff8000000000000".into()
    } else {
        format!("{:x}", f.to_bits())
    }
}
pub fn parse_f64(s: &str) -> f64 {
    f64::from_bits(unhex_u64(s))
}

pub type Range = (Bound<u64>, Bound<u64>);
pub fn parse_bound(s: &str) -> Bound<u64> {
    if s == "u" {
        Bound::Unbounded
    } else if let Some(r) = s.strip_prefix('i') {
        Bound::Included(unhex_u64(r))
    } else if let Some(r) = s.strip_prefix('e') {
        Bound::Excluded(unhex_u64(r))
    } else {
        panic!("bad bound")
    }
}
pub fn parse_range(s: &str) -> Range {
    let (a, b) = s.split_once('_').expect("range");
    (parse_bound(a), parse_bound(b))
}
pub fn bound_tok(b: &Bound<u64>) -> String {
    match b {
        Bound::Unbounded => "u".into(),
        Bound::Included(v) => format!("i{v:x}"),
        Bound::Excluded(v) => format!("e{v:x}"),
    }
}
pub fn range_tok(r: &Range) -> String {
    format!("{}_{}", bound_tok(&r.0), bound_tok(&r.1))
}

// ---------------------------------------------------------------------------------------------
// header
// ---------------------------------------------------------------------------------------------
pub fn header_fields_tok(h: &Header) -> String {
    [
        format!("{:x}", h.spec_version),
        format!("{:x}", h.root_directory_offset),
        format!("{:x}", h.root_directory_length),
        format!("{:x}", h.json_metadata_offset),
        format!("{:x}", h.json_metadata_length),
        format!("{:x}", h.leaf_directories_offset),
        format!("{:x}", h.leaf_directories_length),
        format!("{:x}", h.tile_data_offset),
        format!("{:x}", h.tile_data_length),
        format!("{:x}", h.num_addressed_tiles),
        format!("{:x}", h.num_tile_entries),
        format!("{:x}", h.num_tile_content),
        format!("{}", u8::from(h.clustered)),
        format!("{:x}", comp_code(h.internal_compression)),
        format!("{:x}", comp_code(h.tile_compression)),
        format!("{:x}", ttype_code(h.tile_type)),
        format!("{:x}", h.min_zoom),
        format!("{:x}", h.max_zoom),
        f64_tok(h.min_pos.longitude),
        f64_tok(h.min_pos.latitude),
        f64_tok(h.max_pos.longitude),
        f64_tok(h.max_pos.latitude),
        format!("{:x}", h.center_zoom),
        f64_tok(h.center_pos.longitude),
        f64_tok(h.center_pos.latitude),
    ]
    .join(" ")
}
pub fn header_of_fields(t: &[&str]) -> Header {
    assert!(t.len() == 25, "header fields");
    let mut h = Header::default();
    h.spec_version = u8::try_from(unhex_u64(t[0])).expect("version");
    h.root_directory_offset = unhex_u64(t[1]);
    h.root_directory_length = unhex_u64(t[2]);
    h.json_metadata_offset = unhex_u64(t[3]);
    h.json_metadata_length = unhex_u64(t[4]);
    h.leaf_directories_offset = unhex_u64(t[5]);
    h.leaf_directories_length = unhex_u64(t[6]);
    h.tile_data_offset = unhex_u64(t[7]);
    h.tile_data_length = unhex_u64(t[8]);
    h.num_addressed_tiles = unhex_u64(t[9]);
    h.num_tile_entries = unhex_u64(t[10]);
    h.num_tile_content = unhex_u64(t[11]);
    h.clustered = t[12] == "1";
    h.internal_compression = comp_of_code(unhex_u64(t[13]));
    h.tile_compression = comp_of_code(unhex_u64(t[14]));
    h.tile_type = ttype_of_code(unhex_u64(t[15]));
    h.min_zoom = u8::try_from(unhex_u64(t[16])).expect("zoom");
    h.max_zoom = u8::try_from(unhex_u64(t[17])).expect("zoom");
    h.min_pos.longitude = parse_f64(t[18]);
    h.min_pos.latitude = parse_f64(t[19]);
    h.max_pos.longitude = parse_f64(t[20]);
    h.max_pos.latitude = parse_f64(t[21]);
    h.center_zoom = u8::try_from(unhex_u64(t[22])).expect("zoom");
    h.center_pos.longitude = parse_f64(t[23]);
    h.center_pos.latitude = parse_f64(t[24]);
    h
}
pub fn header_dec(asy: bool, b: &[u8]) -> std::io::Result<(Header, usize)> {
    if asy {
        let mut r = futures::io::Cursor::new(b);
        let h = block_on(Header::from_async_reader(&mut r))?;
        Ok((h, b.len() - r.position() as usize))
    } else {
        let mut r = Cursor::new(b);
        let h = Header::from_reader(&mut r)?;
        Ok((h, b.len() - r.position() as usize))
    }
}
pub fn header_enc(asy: bool, h: &Header) -> std::io::Result<Vec<u8>> {
    if asy {
        let mut out = futures::io::Cursor::new(Vec::<u8>::new());
        block_on(h.to_async_writer(&mut out))?;
        Ok(out.into_inner())
    } else {
        let mut out = Vec::<u8>::new();
        h.to_writer(&mut out)?;
        Ok(out)
    }
}

// ---------------------------------------------------------------------------------------------
// directories
// ---------------------------------------------------------------------------------------------
pub struct WdirsOut {
    pub img: Vec<u8>,
    pub pos: u64,
    pub leaf: Vec<u8>,
    pub log: Vec<crate::streams::Ev>,
}
pub fn wdirs(asy: bool, c: Compression, start: Option<usize>, pos: u64, pre: &[u8], es: &[pmtiles2::Entry]) -> std::io::Result<WdirsOut> {
    let strat = start.map(|s| WriteDirsOverflowStrategy::OnlyLeafPointers { start_size: Some(s) });
    if asy {
        let mut st = AsyncStream(Core::new(pre.to_vec(), pos));
        let leaf = block_on(util::write_directories_async(&mut st, es, c, strat))?;
        Ok(WdirsOut { img: st.0.data, pos: st.0.pos, leaf, log: st.0.log })
    } else {
        let mut st = SyncStream(Core::new(pre.to_vec(), pos));
        let leaf = util::write_directories(&mut st, es, c, strat)?;
        Ok(WdirsOut { img: st.0.data, pos: st.0.pos, leaf, log: st.0.log })
    }
}
pub fn rdirs(asy: bool, c: Compression, ro: u64, rl: u64, lo: u64, rg: Range, img: &[u8]) -> std::io::Result<BTreeMap<u64, (u64, u32)>> {
    let m = if asy {
        let mut r = futures::io::Cursor::new(img);
        block_on(util::read_directories_async(&mut r, c, (ro, rl), lo, rg))?
    } else {
        let mut r = Cursor::new(img);
        util::read_directories(&mut r, c, (ro, rl), lo, rg)?
    };
    Ok(m.into_iter().map(|(k, v)| (k, (v.offset, v.length))).collect())
}
pub fn tiles_tok(m: &BTreeMap<u64, (u64, u32)>) -> String {
    if m.is_empty() {
        return "-".into();
    }
    m.iter().map(|(id, (o, l))| format!("{id:x}:{o:x}:{l:x}")).collect::<Vec<_>>().join(",")
}

// ---------------------------------------------------------------------------------------------
// histories
// ---------------------------------------------------------------------------------------------
pub type SyncPm = PMTiles<crate::streams::Frag>;
pub type AsyncPm = PMTiles<crate::streams::AFrag>;
pub enum St {
    S(SyncPm),
    A(AsyncPm),
}
macro_rules! both {
    ($st:expr, $p:ident => $e:expr) => {
        match $st {
            St::S($p) => $e,
            St::A($p) => $e,
        }
    };
}
pub fn fresh(asy: bool) -> St {
    if asy {
        St::A(AsyncPm::default())
    } else {
        St::S(SyncPm::default())
    }
}
pub fn open(asy: bool, b: Vec<u8>, rg: Range) -> std::io::Result<St> {
    if asy {
        Ok(St::A(block_on(PMTiles::from_async_reader_partially(crate::streams::AFrag::new(b), rg))?))
    } else {
        Ok(St::S(PMTiles::from_reader_partially(crate::streams::Frag::new(b), rg)?))
    }
}
fn res3<T>(r: std::thread::Result<std::io::Result<T>>) -> Result<T, &'static str> {
    match r {
        Ok(Ok(v)) => Ok(v),
        Ok(Err(_)) => Err("err"),
        Err(_) => Err("crash"),
    }
}
pub fn tile_res_tok(r: std::thread::Result<std::io::Result<Option<Vec<u8>>>>) -> String {
    match res3(r) {
        Ok(None) => "none".into(),
        Ok(Some(b)) => format!("t{}", hex_bytes(&b)),
        Err(k) => k.into(),
    }
}
pub fn get_by_id(st: &mut St, id: u64) -> std::thread::Result<std::io::Result<Option<Vec<u8>>>> {
    catch_unwind(AssertUnwindSafe(|| match st {
        St::S(p) => p.get_tile_by_id(id),
        St::A(p) => block_on(p.get_tile_by_id_async(id)),
    }))
}
pub fn get_xyz(st: &mut St, x: u64, y: u64, z: u8) -> std::thread::Result<std::io::Result<Option<Vec<u8>>>> {
    catch_unwind(AssertUnwindSafe(|| match st {
        St::S(p) => p.get_tile(x, y, z),
        St::A(p) => block_on(p.get_tile_async(x, y, z)),
    }))
}
pub fn is_async_state(st: &St) -> bool {
    matches!(st, St::A(_))
}
/// consumes the archive: to_writer / to_async_writer into the given stream core
pub fn write_to(st: St, core: Core) -> (std::thread::Result<std::io::Result<()>>, Core) {
    match st {
        St::S(p) => {
            let mut s = SyncStream(core);
            let r = catch_unwind(AssertUnwindSafe(|| p.to_writer(&mut s)));
            (r, s.0)
        }
        St::A(p) => {
            let mut s = AsyncStream(core);
            let r = catch_unwind(AssertUnwindSafe(|| block_on(p.to_async_writer(&mut s))));
            (r, s.0)
        }
    }
}
pub fn ids_tok(st: &St) -> String {
    let mut v: Vec<u64> = both!(st, p => p.tile_ids().into_iter().copied().collect());
    v.sort_unstable();
    format!("L{}", nums_tok(&v))
}
pub fn hdr_tok(st: &St) -> String {
    both!(st, p => format!(
        "H{:x}:{:x}:{:x}:{:x}:{:x}:{:x}:{}:{}:{}:{}:{}:{}:{}",
        ttype_code(p.tile_type), comp_code(p.tile_compression), comp_code(p.internal_compression),
        p.min_zoom, p.max_zoom, p.center_zoom,
        f64_tok(p.min_longitude), f64_tok(p.min_latitude), f64_tok(p.max_longitude), f64_tok(p.max_latitude),
        f64_tok(p.center_longitude), f64_tok(p.center_latitude),
        hex_bytes(&serde_json::to_vec(&p.meta_data).expect("meta"))
    ))
}
pub fn snap_tok(st: &St) -> String {
    let s = both!(st, p => p.verif_snapshot());
    let content = |h: u64| -> String {
        match s.data_by_hash.iter().find(|(k, _)| *k == h) {
            Some((_, b)) => hex_bytes(b),
            None => format!("?{h:x}"),
        }
    };
    let t: Vec<String> = s
        .tile_by_id
        .iter()
        .map(|(id, t)| match t {
            Ok(h) => format!("{id:x}={}", content(*h)),
            Err((o, l)) => format!("{id:x}=@{o:x}+{l:x}"),
        })
        .collect();
    let mut d: Vec<String> = s.data_by_hash.iter().map(|(_, b)| hex_bytes(b)).collect();
    d.sort();
    let mut r: Vec<String> = s
        .ids_by_hash
        .iter()
        .map(|(h, ids)| format!("{}={}", content(*h), ids.iter().map(|i| format!("{i:x}")).collect::<Vec<_>>().join("+")))
        .collect();
    r.sort();
    let j = |l: &Vec<String>| if l.is_empty() { "-".to_string() } else { l.join(",") };
    format!("P{}/{}/{}", j(&t), j(&d), j(&r))
}

pub fn run_hist(mode: &str, ops: &str) -> String {
    let mut st = fresh(mode == "async");
    let mut outs: Vec<String> = Vec::new();
    for o in ops.split(';') {
        let f: Vec<&str> = o.split(':').collect();
        let out: String = match f.as_slice() {
            ["a", id, d] => {
                let (id, d) = (unhex_u64(id), unhex_bytes(d));
                let r = catch_unwind(AssertUnwindSafe(|| add_any(&mut st, id, d)));
                match res3(r) {
                    Ok(()) => "ok".into(),
                    Err(k) => k.into(),
                }
            }
            ["r", id] => {
                let id = unhex_u64(id);
                both!(&mut st, p => p.remove_tile(id));
                "-".into()
            }
            ["g", id] => tile_res_tok(get_by_id(&mut st, unhex_u64(id))),
            ["x", x, y, z] => tile_res_tok(get_xyz(&mut st, unhex_u64(x), unhex_u64(y), u8::try_from(unhex_u64(z)).expect("z"))),
            ["l"] => ids_tok(&st),
            ["n"] => format!("N{:x}", both!(&st, p => p.num_tiles())),
            ["s", w, r] => {
                assert_eq!(*w == "a", is_async_state(&st), "write family must match the state");
                let old = std::mem::replace(&mut st, fresh(*r == "a"));
                let (res, core) = write_to(old, Core::new(Vec::new(), 0));
                match res3(res) {
                    Ok(()) => {
                        let b = core.data;
                        let h = hex_bytes(&b);
                        let ro = catch_unwind(AssertUnwindSafe(|| open(*r == "a", b, (Bound::Unbounded, Bound::Unbounded))));
                        match res3(ro) {
                            Ok(s2) => {
                                st = s2;
                                format!("S{h},ok")
                            }
                            Err(k) => format!("S{h},{k}"),
                        }
                    }
                    Err(k) => format!("S{k},ok"),
                }
            }
            ["o", r, rg, b] => {
                let (rg, b) = (parse_range(rg), unhex_bytes(b));
                let ro = catch_unwind(AssertUnwindSafe(|| open(*r == "a", b, rg)));
                match res3(ro) {
                    Ok(s2) => {
                        st = s2;
                        "ok".into()
                    }
                    Err(k) => {
                        st = fresh(*r == "a");
                        k.into()
                    }
                }
            }
            ["w", m, pos, pre] => {
                assert_eq!(*m == "a", is_async_state(&st), "write family must match the state");
                let fam = is_async_state(&st);
                let old = std::mem::replace(&mut st, fresh(fam));
                let (res, core) = write_to(old, Core::new(unhex_bytes(pre), unhex_u64(pos)));
                match res3(res) {
                    Ok(()) => format!("W{},{:x},{}", hex_bytes(&core.data), core.pos, log_tok(&core.log)),
                    Err(k) => k.into(),
                }
            }
            ["c", c] => {
                let c = parse_comp(c);
                both!(&mut st, p => p.internal_compression = c);
                "-".into()
            }
            ["m", m] => {
                let v: serde_json::Value = serde_json::from_slice(&unhex_bytes(m)).expect("meta json");
                let serde_json::Value::Object(map) = v else { panic!("meta must be an object") };
                both!(&mut st, p => p.meta_data = map);
                "-".into()
            }
            ["h", tt, tc, minz, maxz, cz, f1, f2, f3, f4, f5, f6] => {
                let z = |s: &str| u8::try_from(unhex_u64(s)).expect("zoom");
                both!(&mut st, p => {
                    p.tile_type = ttype_of_code(unhex_u64(tt));
                    p.tile_compression = comp_of_code(unhex_u64(tc));
                    p.min_zoom = z(minz);
                    p.max_zoom = z(maxz);
                    p.center_zoom = z(cz);
                    p.min_longitude = parse_f64(f1);
                    p.min_latitude = parse_f64(f2);
                    p.max_longitude = parse_f64(f3);
                    p.max_latitude = parse_f64(f4);
                    p.center_longitude = parse_f64(f5);
                    p.center_latitude = parse_f64(f6);
                });
                "-".into()
            }
            ["q"] => hdr_tok(&st),
            ["p"] => snap_tok(&st),
            _ => panic!("bad op {o}"),
        };
        outs.push(out);
    }
    format!("ok {}", outs.join("|"))
}

/// add_tile takes anything that converts into a Vec<u8>: the same bytes arrive as a Vec, a slice, a boxed slice, and -
/// when they are valid UTF-8 - as a String or a &str, depending on the id (what is stored must not depend on it)
pub fn add_any(st: &mut St, id: u64, d: Vec<u8>) -> std::io::Result<()> {
    let pick = (id as usize).wrapping_add(d.len()) % 5;
    macro_rules! go {
        ($p:ident) => {
            match (pick, std::str::from_utf8(&d)) {
                (1, Ok(s)) => $p.add_tile(id, s.to_string()),
                (2, Ok(s)) => $p.add_tile(id, s),
                (3, _) => $p.add_tile(id, &d[..]),
                (4, _) => $p.add_tile(id, d.clone().into_boxed_slice()),
                _ => $p.add_tile(id, d),
            }
        };
    }
    match st {
        St::S(p) => go!(p),
        St::A(p) => go!(p),
    }
}
pub fn run_op2(toks: &[&str]) -> String {
    match toks {
        ["tid", z, x, y] => {
            let (z, x, y) = (u8::try_from(unhex_u64(z)).expect("z"), unhex_u64(x), unhex_u64(y));
            guard(|| Ok(format!("{:x}", util::tile_id(z, x, y))))
        }
        ["zxy", id] => {
            let id = unhex_u64(id);
            guard(|| {
                util::zxy(id)
                    .map(|(z, x, y)| format!("{z:x} {x:x} {y:x}"))
                    .map_err(|e| std::io::Error::new(std::io::ErrorKind::Other, e.to_string()))
            })
        }
        ["hdr_dec", mode, b] => {
            let (asy, b) = (crate::ops::is_async(mode), unhex_bytes(b));
            guard(|| header_dec(asy, &b).map(|(h, rest)| format!("{} {rest:x}", header_fields_tok(&h))))
        }
        ["hdr_enc", mode, fields @ ..] => {
            let asy = crate::ops::is_async(mode);
            let h = header_of_fields(fields);
            guard(|| header_enc(asy, &h).map(|b| hex_bytes(&b)))
        }
        ["wdirs", mode, c, ss, pos, pre, es] => {
            let asy = crate::ops::is_async(mode);
            let start = if *ss == "-" { None } else { Some(usize::try_from(unhex_u64(ss)).expect("start size")) };
            let (c, pos, pre, es) = (parse_comp(c), unhex_u64(pos), unhex_bytes(pre), parse_entries(es));
            guard(|| wdirs(asy, c, start, pos, &pre, &es).map(|o| format!("{} {:x} {}", hex_bytes(&o.img), o.pos, hex_bytes(&o.leaf))))
        }
        ["rdirs", mode, c, ro, rl, lo, rg, img] => {
            let asy = crate::ops::is_async(mode);
            let (c, ro, rl, lo, rg, img) = (parse_comp(c), unhex_u64(ro), unhex_u64(rl), unhex_u64(lo), parse_range(rg), unhex_bytes(img));
            guard(|| rdirs(asy, c, ro, rl, lo, rg, &img).map(|m| tiles_tok(&m)))
        }
        ["slook", c, ro, rl, lo, id, img] => {
            // the harness's independent specification reader (spec.rs), on the same directory tree
            let (c, ro, rl, lo, id, img) = (parse_comp(c), unhex_u64(ro), unhex_u64(rl), unhex_u64(lo), unhex_u64(id), unhex_bytes(img));
            let h = crate::spec::SHeader {
                root_off: ro, root_len: rl, meta_off: 0, meta_len: 0, leaf_off: lo, leaf_len: 0, data_off: 0, data_len: 0,
                addressed: 0, entries: 0, contents: 0, clustered: false, icomp: comp_code(c) as u8, tcomp: 0, ttype: 0,
                minz: 0, maxz: 0, coords: [0; 6], cz: 0,
            };
            match crate::spec::lookup(&img, &h, id) {
                Ok(None) => "ok none".to_string(),
                Ok(Some((o, l))) => format!("ok {o:x}:{l:x}"),
                Err(_) => "err".to_string(),
            }
        }
        ["io_read_exact", mode, n, pos, sched, img] => {
            use crate::streams::{AsyncStream, Core, Schedule, SyncStream};
            let (n, pos, sched, img) = (unhex_u64(n) as usize, unhex_u64(pos), parse_nums(sched), unhex_bytes(img));
            let asy = crate::ops::is_async(mode);
            guard(|| {
                let mut core = Core::new(img.clone(), pos);
                // the model's schedule is consumed once and then transfers are full: pad with a huge limit
                let mut ch: Vec<usize> = sched.iter().map(|x| (*x as usize).max(1)).collect();
                ch.extend(std::iter::repeat(usize::MAX / 2).take(4096));
                core.sched = Schedule { chunks: ch, pend: if asy { vec![true, false] } else { vec![] } };
                let mut buf = vec![0u8; n];
                let p = if asy {
                    let mut s = AsyncStream(core);
                    block_on(futures::AsyncReadExt::read_exact(&mut s, &mut buf))?;
                    s.0.pos
                } else {
                    let mut s = SyncStream(core);
                    std::io::Read::read_exact(&mut s, &mut buf)?;
                    s.0.pos
                };
                Ok(format!("{} {p:x}", hex_bytes(&buf)))
            })
        }
        ["io_read_to_end", mode, limit, pos, sched, img] => {
            use crate::streams::{AsyncStream, Core, Schedule, SyncStream};
            let (limit, pos, sched, img) = (unhex_u64(limit), unhex_u64(pos), parse_nums(sched), unhex_bytes(img));
            let asy = crate::ops::is_async(mode);
            guard(|| {
                let mut core = Core::new(img.clone(), pos);
                let mut ch: Vec<usize> = sched.iter().map(|x| (*x as usize).max(1)).collect();
                ch.extend(std::iter::repeat(usize::MAX / 2).take(4096));
                core.sched = Schedule { chunks: ch, pend: if asy { vec![false, true] } else { vec![] } };
                let mut out = Vec::new();
                if asy {
                    let s = AsyncStream(core);
                    let mut t = futures::AsyncReadExt::take(s, limit);
                    block_on(futures::AsyncReadExt::read_to_end(&mut t, &mut out))?;
                } else {
                    let s = SyncStream(core);
                    let mut t = std::io::Read::take(s, limit);
                    std::io::Read::read_to_end(&mut t, &mut out)?;
                }
                Ok(hex_bytes(&out))
            })
        }
        ["io_write_all", mode, pos, sched, pre, bs] => {
            use crate::streams::{AsyncStream, Core, Schedule, SyncStream};
            let (pos, sched, pre, bs) = (unhex_u64(pos), parse_nums(sched), unhex_bytes(pre), unhex_bytes(bs));
            let asy = crate::ops::is_async(mode);
            guard(|| {
                let mut core = Core::new(pre.clone(), pos);
                let mut ch: Vec<usize> = sched.iter().map(|x| (*x as usize).max(1)).collect();
                ch.extend(std::iter::repeat(usize::MAX / 2).take(4096));
                core.sched = Schedule { chunks: ch, pend: if asy { vec![true, true, false] } else { vec![] } };
                let core = if asy {
                    let mut s = AsyncStream(core);
                    block_on(futures::AsyncWriteExt::write_all(&mut s, &bs))?;
                    s.0
                } else {
                    let mut s = SyncStream(core);
                    std::io::Write::write_all(&mut s, &bs)?;
                    s.0
                };
                Ok(format!("{} {:x}", hex_bytes(&core.data), core.pos))
            })
        }
        ["owin", mode, rg, img] => {
            // byte ranges read while opening (merged), through a recording reader
            let (rg, img) = (parse_range(rg), unhex_bytes(img));
            let asy = crate::ops::is_async(mode);
            guard(|| {
                use crate::streams::{read_ranges, AShared, Core, Shared};
                let rr = if asy {
                    let sh = AShared::new(Core::new(img.clone(), 0));
                    block_on(PMTiles::from_async_reader_partially(sh.clone(), rg))?;
                    let g = sh.0.lock().unwrap();
                    read_ranges(&g.log)
                } else {
                    let sh = Shared::new(Core::new(img.clone(), 0));
                    PMTiles::from_reader_partially(sh.clone(), rg)?;
                    let g = sh.0.borrow();
                    read_ranges(&g.log)
                };
                Ok(if rr.is_empty() { "-".to_string() } else { rr.iter().map(|(a, b)| format!("{a:x}-{b:x}")).collect::<Vec<_>>().join(",") })
            })
        }
        ["hist", mode, ops] => match catch_unwind(AssertUnwindSafe(|| run_hist(mode, ops))) {
            Ok(s) => s,
            Err(_) => "harness-panic".into(),
        },
        _ => format!("unsupported {}", toks.first().unwrap_or(&"")),
    }
}
