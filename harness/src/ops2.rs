//! Further operations (filled in as the model grows).
pub fn run_op2(toks: &[&str]) -> String {
    format!("unsupported {}", toks.first().unwrap_or(&""))
}
