use crate::gen_common::Stats;
use crate::rng::Rng;
pub fn gen(_prop: &str, _rng: &mut Rng, _quick: bool, _st: &mut Stats) -> Option<Vec<String>> {
    None
}
pub fn run_chk(_toks: &[&str]) -> Option<String> {
    None
}
