//! Archive-level properties: C01, C02, C03, C04, C06, C10, C11, C16.
use crate::gen_arch::*;
use crate::gen_common::*;
use crate::ops::guard_chk;
use crate::ops2::*;
use crate::p_codec::{near_tie_class, nearest_e7};
use crate::proto::*;
use crate::rng::Rng;
use crate::spec::{self, SEntry};
use crate::streams::Core;
use pmtiles2::{Compression, Entry};
use std::collections::{BTreeMap, BTreeSet};
use std::ops::Bound;

const FULL: Range = (Bound::Unbounded, Bound::Unbounded);

// ---------------------------------------------------------------------------------------------
// a reference interpretation of edit ops (the abstract map + settings)
// ---------------------------------------------------------------------------------------------
#[derive(Clone, Debug, Default)]
pub struct Abs {
    pub tiles: BTreeMap<u64, Vec<u8>>,
    pub meta: Vec<u8>,
    pub icomp: u64,
    pub tcomp: u64,
    pub ttype: u64,
    pub zooms: [u8; 3],
    pub coords: [f64; 6],
}
impl Abs {
    pub fn new() -> Self {
        Abs { meta: b"{}".to_vec(), icomp: 2, ..Default::default() }
    }
    /// applies a pure edit op (a, r, c, m, h); returns false for anything else
    pub fn apply(&mut self, o: &str) -> bool {
        let f: Vec<&str> = o.split(':').collect();
        match f.as_slice() {
            ["a", id, d] => {
                let d = unhex_bytes(d);
                if !d.is_empty() {
                    self.tiles.insert(unhex_u64(id), d);
                }
            }
            ["r", id] => {
                self.tiles.remove(&unhex_u64(id));
            }
            ["c", c] => self.icomp = comp_code(parse_comp(c)),
            ["m", m] => self.meta = unhex_bytes(m),
            ["h", tt, tc, minz, maxz, cz, f1, f2, f3, f4, f5, f6] => {
                self.ttype = unhex_u64(tt);
                self.tcomp = unhex_u64(tc);
                self.zooms = [unhex_u64(minz) as u8, unhex_u64(maxz) as u8, unhex_u64(cz) as u8];
                self.coords = [parse_f64(f1), parse_f64(f2), parse_f64(f3), parse_f64(f4), parse_f64(f5), parse_f64(f6)];
            }
            _ => return false,
        }
        true
    }
}

fn apply_ops(st: &mut St, ops: &[&str]) -> Result<(), String> {
    for o in ops {
        let f: Vec<&str> = o.split(':').collect();
        match f.as_slice() {
            ["a", id, d] => {
                let (id, d) = (unhex_u64(id), unhex_bytes(d));
                let empty = d.is_empty();
                let r = add_any(st, id, d);
                if r.is_err() != empty {
                    return Err(format!("add_tile({id}) returned {r:?}"));
                }
            }
            ["r", id] => match st {
                St::S(p) => p.remove_tile(unhex_u64(id)),
                St::A(p) => p.remove_tile(unhex_u64(id)),
            },
            ["c", c] => match st {
                St::S(p) => p.internal_compression = parse_comp(c),
                St::A(p) => p.internal_compression = parse_comp(c),
            },
            ["m", _] | ["h", ..] => {
                // reuse the history runner's setters through a one-op history is not possible (state);
                // set directly
                set_setting(st, &f);
            }
            ["s", _w, r] => {
                // save and reopen: the tiles become reader-backed
                let old = std::mem::replace(st, fresh(*r == "a"));
                let b = write_bytes(old)?;
                *st = reopen(*r == "a", b, FULL)?;
            }
            ["g", id] => {
                // a lookup (its answer is judged elsewhere; here it is an event of the history)
                get(st, unhex_u64(id))?;
            }
            _ => return Err(format!("unsupported op {o}")),
        }
    }
    Ok(())
}
fn set_setting(st: &mut St, f: &[&str]) {
    macro_rules! both {
        ($p:ident => $e:expr) => {
            match st {
                St::S($p) => $e,
                St::A($p) => $e,
            }
        };
    }
    match f {
        ["m", m] => {
            let v: serde_json::Value = serde_json::from_slice(&unhex_bytes(m)).expect("meta json");
            let serde_json::Value::Object(map) = v else { panic!("meta must be an object") };
            both!(p => p.meta_data = map);
        }
        ["h", tt, tc, minz, maxz, cz, f1, f2, f3, f4, f5, f6] => {
            let z = |s: &str| u8::try_from(unhex_u64(s)).expect("zoom");
            both!(p => {
                p.tile_type = ttype_of_code(unhex_u64(tt));
                p.tile_compression = comp_of_code(unhex_u64(tc));
                p.min_zoom = z(minz);
                p.max_zoom = z(maxz);
                p.center_zoom = z(cz);
                p.min_longitude = parse_f64(f1);
                p.min_latitude = parse_f64(f2);
                p.max_longitude = parse_f64(f3);
                p.max_latitude = parse_f64(f4);
                p.center_longitude = parse_f64(f5);
                p.center_latitude = parse_f64(f6);
            });
        }
        _ => panic!("setting"),
    }
}
fn write_bytes(st: St) -> Result<Vec<u8>, String> {
    // the sink accepts a varying number of bytes per write call (a writer may legally do so, C13)
    let mut sink = Core::new(Vec::new(), 0);
    sink.sched = crate::streams::Schedule { chunks: vec![65_536, 7, 1 << 20, 3, 4096], pend: vec![] };
    let (r, core) = write_to(st, sink);
    match r {
        Err(_) => Err("to_writer panicked".into()),
        Ok(Err(e)) => Err(format!("to_writer failed: {e}")),
        Ok(Ok(())) => Ok(core.data),
    }
}
fn reopen(asy: bool, b: Vec<u8>, rg: Range) -> Result<St, String> {
    match std::panic::catch_unwind(std::panic::AssertUnwindSafe(|| open(asy, b, rg))) {
        Err(_) => Err("opening panicked".into()),
        Ok(Err(e)) => Err(format!("opening failed: {e}")),
        Ok(Ok(s)) => Ok(s),
    }
}
fn sorted_ids(st: &St) -> Vec<u64> {
    let mut v: Vec<u64> = match st {
        St::S(p) => p.tile_ids().into_iter().copied().collect(),
        St::A(p) => p.tile_ids().into_iter().copied().collect(),
    };
    v.sort_unstable();
    v
}
fn count(st: &St) -> usize {
    match st {
        St::S(p) => p.num_tiles(),
        St::A(p) => p.num_tiles(),
    }
}
fn get(st: &mut St, id: u64) -> Result<Option<Vec<u8>>, String> {
    match get_by_id(st, id) {
        Err(_) => Err(format!("get_tile_by_id({id}) panicked")),
        Ok(Err(e)) => Err(format!("get_tile_by_id({id}) failed: {e}")),
        Ok(Ok(v)) => Ok(v),
    }
}
/// ids worth probing that are not in the map
fn absent_ids(keys: &BTreeSet<u64>) -> Vec<u64> {
    let mut v = vec![0u64, 1, BASE32 - 1, BASE32, u64::MAX];
    for k in keys.iter().take(50).chain(keys.iter().rev().take(50)) {
        v.push(k.wrapping_add(1));
        v.push(k.wrapping_sub(1));
    }
    v.retain(|x| !keys.contains(x));
    v.sort_unstable();
    v.dedup();
    v
}
fn compare_content(st: &mut St, want: &BTreeMap<u64, Vec<u8>>, what: &str) -> Result<(), String> {
    let ids = sorted_ids(st);
    let keys: Vec<u64> = want.keys().copied().collect();
    if ids != keys {
        let missing: Vec<&u64> = keys.iter().filter(|k| !ids.contains(k)).take(3).collect();
        let extra: Vec<&u64> = ids.iter().filter(|k| !want.contains_key(k)).take(3).collect();
        return Err(format!("{what}: tile id set differs: {} ids instead of {} (missing e.g. {missing:?}, unexpected e.g. {extra:?})", ids.len(), keys.len()));
    }
    if count(st) != want.len() {
        return Err(format!("{what}: num_tiles() = {} but {} tiles expected", count(st), want.len()));
    }
    for (id, c) in want {
        match get(st, *id)? {
            Some(b) if &b == c => {}
            Some(b) => return Err(format!("{what}: content of tile {id} changed ({} bytes instead of {})", b.len(), c.len())),
            None => return Err(format!("{what}: tile {id} is listed but cannot be fetched")),
        }
    }
    let keyset: BTreeSet<u64> = want.keys().copied().collect();
    for id in absent_ids(&keyset) {
        if get(st, id)?.is_some() {
            return Err(format!("{what}: tile {id} was never added but a tile is returned"));
        }
    }
    Ok(())
}
fn compare_settings(st: &St, a: &Abs, quantize: bool) -> Result<(), String> {
    let tok = hdr_tok(st);
    let f: Vec<&str> = tok[1..].split(':').collect();
    let want_int = [a.ttype, a.tcomp, a.icomp, u64::from(a.zooms[0]), u64::from(a.zooms[1]), u64::from(a.zooms[2])];
    for k in 0..6 {
        if unhex_u64(f[k]) != want_int[k] {
            return Err(format!("header setting #{k} came back as {} instead of {}", f[k], want_int[k]));
        }
    }
    for k in 0..6 {
        let got = parse_f64(f[6 + k]);
        let d = a.coords[k];
        if !quantize {
            if got.to_bits() != d.to_bits() && !(got.is_nan() && d.is_nan()) {
                return Err(format!("coordinate {k} is {got:e} instead of {d:e}"));
            }
            continue;
        }
        if let Some(v) = nearest_e7(d) {
            let ok = v.iter().any(|i| *i >= i64::from(i32::MIN) && *i <= i64::from(i32::MAX) && (f64::from(*i as i32) / 1e7).to_bits() == got.to_bits() || (*i == 0 && got == 0.0));
            let sat = v.iter().all(|i| *i > i64::from(i32::MAX)) || v.iter().all(|i| *i < i64::from(i32::MIN));
            if !ok && !sat {
                if near_tie_class(d) && got.to_bits() == (((d * 10_000_000.0).round() as i32) as f64 / 1e7).to_bits() {
                    return Err(format!("NEARTIE coordinate {d:e} came back as {got:e} but the nearest multiple of 1e-7 is {:?}e-7 (double rounding at a half-step tie)", v));
                }
                return Err(format!("coordinate {d:e} came back as {got:e} but the nearest multiple of 1e-7 is {:?}e-7", v));
            }
        }
    }
    if unhex_bytes(f[12]) != a.meta {
        return Err(format!("metadata came back as {:?} instead of {:?}", String::from_utf8_lossy(&unhex_bytes(f[12])), String::from_utf8_lossy(&a.meta)));
    }
    Ok(())
}

fn split_ops(ops: &str) -> Vec<&str> {
    if ops == "-" {
        vec![]
    } else {
        ops.split(';').collect()
    }
}
fn build(wmode: &str, ops: &str) -> Result<(St, Abs), String> {
    let mut st = fresh(wmode == "async");
    let mut abs = Abs::new();
    let v = split_ops(ops);
    apply_ops(&mut st, &v)?;
    for o in &v {
        abs.apply(o);
    }
    Ok((st, abs))
}

// ---------------------------------------------------------------------------------------------
// C01 / C02
// ---------------------------------------------------------------------------------------------
fn chk_roundtrip(wmode: &str, rmode: &str, ops: &str) -> Result<(), String> {
    let (st, abs) = build(wmode, ops)?;
    let bytes = write_bytes(st)?;
    let mut back = reopen(rmode == "async", bytes.clone(), FULL)?;
    compare_content(&mut back, &abs.tiles, "after write and reopen")?;
    compare_settings(&back, &abs, true)?;
    chk_shared_handle(rmode == "async", &bytes, &abs.tiles)?;
    // lookups by coordinates agree with lookups by id
    for (id, c) in abs.tiles.iter().take(40) {
        if let Ok((z, x, y)) = pmtiles2::util::zxy(*id) {
            match get_xyz(&mut back, x, y, z) {
                Ok(Ok(Some(b))) if &b == c => {}
                other => return Err(format!("get_tile({x},{y},{z}) for id {id} returned {:?}", other.map(|r| r.map(|o| o.map(|b| b.len())).map_err(|e| e.to_string())).map_err(|_| "panic"))),
            }
        }
    }
    Ok(())
}
/// Two archives opened over ONE stream handle that shares its position (as two `&File`s of one open file do): each
/// lookup must fetch its own bytes wherever the other archive left the position; so must a save.
fn chk_shared_handle(asy: bool, bytes: &[u8], want: &BTreeMap<u64, Vec<u8>>) -> Result<(), String> {
    use crate::streams::{AShared, Core, Shared};
    use futures::executor::block_on;
    let ids: Vec<u64> = want.keys().copied().collect();
    if ids.len() < 2 {
        return Ok(());
    }
    let n = ids.len();
    let picks: Vec<(u64, u64)> = (0..n.min(24)).map(|i| (ids[i * n / n.min(24)], ids[n - 1 - i * n / n.min(24)])).collect();
    let bad = |who: &str, id: u64| format!("two archives share one stream handle: the lookup of tile {id} by the {who} archive returned other bytes than were written");
    if asy {
        let sh = AShared::new(Core::new(bytes.to_vec(), 0));
        let mut a = block_on(pmtiles2::PMTiles::from_async_reader(sh.clone())).map_err(|e| format!("open over a shared handle: {e}"))?;
        sh.0.lock().unwrap().pos = 0; // (an archive is read from where the handle stands)
        let mut b = block_on(pmtiles2::PMTiles::from_async_reader(sh.clone())).map_err(|e| format!("second open over a shared handle: {e}"))?;
        for (x, y) in &picks {
            if block_on(a.get_tile_by_id_async(*x)).map_err(|e| e.to_string())?.as_ref() != want.get(x) {
                return Err(bad("first", *x));
            }
            if block_on(b.get_tile_by_id_async(*y)).map_err(|e| e.to_string())?.as_ref() != want.get(y) {
                return Err(bad("second", *y));
            }
        }
        // the first archive reads a tile, the second reads the tile stored right behind it, the first is saved
        let _ = block_on(a.get_tile_by_id_async(ids[0]));
        let _ = block_on(b.get_tile_by_id_async(ids[n / 2]));
        let mut out = futures::io::Cursor::new(Vec::new());
        block_on(a.to_async_writer(&mut out)).map_err(|e| format!("saving an archive whose stream handle is shared: {e}"))?;
        let mut re = reopen(true, out.into_inner(), FULL)?;
        compare_content(&mut re, want, "after saving an archive whose stream handle was moved by another archive")
    } else {
        let sh = Shared::new(Core::new(bytes.to_vec(), 0));
        let mut a = pmtiles2::PMTiles::from_reader(sh.clone()).map_err(|e| format!("open over a shared handle: {e}"))?;
        sh.0.borrow_mut().pos = 0; // (an archive is read from where the handle stands)
        let mut b = pmtiles2::PMTiles::from_reader(sh.clone()).map_err(|e| format!("second open over a shared handle: {e}"))?;
        for (x, y) in &picks {
            if a.get_tile_by_id(*x).map_err(|e| e.to_string())?.as_ref() != want.get(x) {
                return Err(bad("first", *x));
            }
            if b.get_tile_by_id(*y).map_err(|e| e.to_string())?.as_ref() != want.get(y) {
                return Err(bad("second", *y));
            }
        }
        let _ = a.get_tile_by_id(ids[0]);
        let _ = b.get_tile_by_id(ids[n / 2]);
        let mut out = std::io::Cursor::new(Vec::new());
        a.to_writer(&mut out).map_err(|e| format!("saving an archive whose stream handle is shared: {e}"))?;
        let mut re = reopen(false, out.into_inner(), FULL)?;
        compare_content(&mut re, want, "after saving an archive whose stream handle was moved by another archive")
    }
}
fn seeded_ops(seed: u64, n: usize, big: bool, icomp: Option<Compression>) -> String {
    let mut rng = Rng::new(seed);
    let mut st = Stats::default();
    let mut l = gen_logical(&mut rng, n, big, &mut st);
    if let Some(c) = icomp {
        l.icomp = c;
    }
    let mut ops = settings_ops(&l);
    ops.extend(add_ops(&l, &mut rng, true));
    ops.join(";")
}
/// distinct, incompressible-ish entries: forces leaf directories for every codec.  About a third of the entries are
/// runs of 2-4 tiles sharing one content, and the entries that end a 4096-entry leaf always are (a pointer must
/// start after the whole run that precedes it).
fn seeded_spill_ops(seed: u64, n: usize, icomp: Compression) -> String {
    let mut rng = Rng::new(seed);
    let mut ops = vec![format!("c:{}", comp_tok(icomp))];
    let mut id = rng.below(1000);
    for i in 0..n {
        let len = 1 + (rng.next() % 3) as usize;
        let mut c = rng.bytes(len);
        c.extend_from_slice(&(i as u32).to_le_bytes());
        let run = if i % 4096 == 4095 { 2 + rng.below(3) } else if rng.below(3) == 0 { 2 + rng.below(3) } else { 1 };
        let hc = hex_bytes(&c);
        for k in 0..run {
            ops.push(format!("a:{:x}:{hc}", id + k));
        }
        id += run + rng.spread(if icomp == Compression::None { 3 } else { 30 });
    }
    ops.join(";")
}

/// very regular archives: consecutive ids, distinct contents of one length (directories that compress extremely well)
fn regular_ops(n: usize, icomp: Compression) -> String {
    let mut ops = vec![format!("c:{}", comp_tok(icomp))];
    for i in 0..n {
        ops.push(format!("a:{:x}:{:08x}", 100 + i, i as u32));
    }
    ops.join(";")
}

/// an archive of another writer (unordered data, prefix back-references, separately stored duplicates, nested leaves),
/// opened and written again: the output must be valid for the strict reader and address exactly the same bytes
fn chk_valid_foreign(mode: &str, bytes: &[u8]) -> Result<(), String> {
    let src = spec::parse(bytes, false).map_err(|e| format!("harness: foreign archive invalid: {e}"))?;
    let mut want: BTreeMap<u64, Vec<u8>> = BTreeMap::new();
    for (id, ol) in spec::all_tiles(&src, 2_000_000)? {
        want.insert(id, spec::tile_bytes(bytes, &src.header, ol)?.to_vec());
    }
    let st = reopen(mode == "async", bytes.to_vec(), FULL)?;
    let out = write_bytes(st)?;
    let v = spec::parse(&out, true).map_err(|e| format!("the rewritten archive is not a valid PMTiles v3 file: {e}"))?;
    let all = spec::all_tiles(&v, 2_000_000)?;
    if all.len() != want.len() {
        return Err(format!("the rewritten archive addresses {} tiles, the source {}", all.len(), want.len()));
    }
    for (id, ol) in all {
        let got = spec::tile_bytes(&out, &v.header, ol)?;
        if want.get(&id).map(|c| &c[..]) != Some(got) {
            return Err(format!("tile {id} changed its content in the rewritten archive ({} bytes instead of {:?})", got.len(), want.get(&id).map(|c| c.len())));
        }
    }
    Ok(())
}
fn chk_valid(wmode: &str, ops: &str) -> Result<(), String> {
    let (st, abs) = build(wmode, ops)?;
    let bytes = write_bytes(st)?;
    let v = spec::parse(&bytes, true).map_err(|e| format!("the written archive is not a valid PMTiles v3 file: {e}"))?;
    if u64::from(v.header.icomp) != abs.icomp {
        return Err("internal compression code in the header differs from the setting".into());
    }
    if !v.header.clustered {
        return Err("clustered flag not set".into());
    }
    let all = spec::all_tiles(&v, 10_000_000)?;
    let ids: Vec<u64> = all.keys().copied().collect();
    let want: Vec<u64> = abs.tiles.keys().copied().collect();
    if ids != want {
        return Err(format!("the directories address {} tiles, {} were added", ids.len(), want.len()));
    }
    // the specification's lookup procedure (sampled when large)
    let step = (abs.tiles.len() / 3000).max(1);
    for (k, (id, c)) in abs.tiles.iter().enumerate() {
        if k % step != 0 && k + 5 < abs.tiles.len() {
            continue;
        }
        match spec::lookup(&bytes, &v.header, *id)? {
            Some(ol) => {
                if spec::tile_bytes(&bytes, &v.header, ol)? != &c[..] {
                    return Err(format!("the specification's lookup of tile {id} returns other bytes than were added"));
                }
            }
            None => return Err(format!("the specification's lookup does not find tile {id}")),
        }
    }
    let keyset: BTreeSet<u64> = abs.tiles.keys().copied().collect();
    for id in absent_ids(&keyset) {
        if spec::lookup(&bytes, &v.header, id)?.is_some() {
            return Err(format!("the specification's lookup finds tile {id}, which was never added"));
        }
    }
    if serde_json::to_vec(&v.meta).unwrap() != abs.meta {
        return Err("metadata section differs from what was set".into());
    }
    if bytes.len() as u64 != v.header.data_off + v.header.data_len {
        // sections inside the file is checked by parse; trailing bytes are merely noted
        return Err(format!("the file has {} bytes but the tile data section ends at {}", bytes.len(), v.header.data_off + v.header.data_len));
    }
    Ok(())
}

// ---------------------------------------------------------------------------------------------
// C10
// ---------------------------------------------------------------------------------------------
fn chk_dedup_bytes(bytes: &[u8], want: &BTreeMap<u64, Vec<u8>>) -> Result<(), String> {
    let v = spec::parse(bytes, true).map_err(|e| format!("written archive invalid: {e}"))?;
    let distinct: BTreeSet<&Vec<u8>> = want.values().collect();
    let sum: u64 = distinct.iter().map(|c| c.len() as u64).sum();
    if v.header.data_len != sum {
        return Err(format!("tile data section has {} bytes, the distinct contents sum to {sum}", v.header.data_len));
    }
    if v.header.contents != distinct.len() as u64 {
        return Err(format!("num_tile_content {} but {} distinct contents", v.header.contents, distinct.len()));
    }
    let all = spec::all_tiles(&v, 10_000_000)?;
    let mut by_content: BTreeMap<&Vec<u8>, (u64, u32)> = BTreeMap::new();
    for (id, c) in want {
        let ol = *all.get(id).ok_or(format!("tile {id} not addressed"))?;
        if let Some(prev) = by_content.insert(c, ol) {
            if prev != ol {
                return Err(format!("identical contents stored at offsets {} and {}", prev.0, ol.0));
            }
        }
    }
    let mut seen: BTreeMap<(u64, u32), &Vec<u8>> = BTreeMap::new();
    for (c, ol) in &by_content {
        if let Some(other) = seen.insert(*ol, c) {
            if other != *c {
                return Err("different contents share one (offset, length)".into());
            }
        }
    }
    for w in v.tile_entries.windows(2) {
        if w[1].id == w[0].id + u64::from(w[0].run) && w[1].off == w[0].off && w[1].len == w[0].len {
            return Err(format!("adjacent entries at ids {} and {} could be merged into one run", w[0].id, w[1].id));
        }
    }
    Ok(())
}
/// ops may contain saves ("s:w:r") and opens ("o:r:range:hex") so that duplicates exist between
/// in-memory and reader-backed tiles; probes are ignored
fn chk_dedup(mode: &str, ops: &str) -> Result<(), String> {
    // the op "t" continues the history on a newly started thread (what is stored must not depend on which thread
    // touched the archive: per-thread hash seeds, scratch buffers, ...)
    let all: Vec<String> = split_ops(ops).into_iter().map(|o| o.to_string()).collect();
    let mut st = fresh(mode == "async");
    let mut abs = Abs::new();
    for seg in all.split(|o| o == "t") {
        let seg: Vec<String> = seg.to_vec();
        let (st_in, abs_in) = (st, abs);
        let r = std::thread::spawn(move || {
            let (mut st, mut abs) = (st_in, abs_in);
            let refs: Vec<&str> = seg.iter().map(String::as_str).collect();
            chk_dedup_segment(&mut st, &mut abs, &refs).map(|()| (st, abs))
        })
        .join()
        .map_err(|_| "a segment of the history panicked".to_string())??;
        st = r.0;
        abs = r.1;
    }
    let b = write_bytes(st)?;
    chk_dedup_bytes(&b, &abs.tiles)
}
fn chk_dedup_segment(st_ref: &mut St, abs_ref: &mut Abs, ops: &[&str]) -> Result<(), String> {
    let mut st = std::mem::replace(st_ref, fresh(false));
    let mut abs = std::mem::replace(abs_ref, Abs::new());
    let r = chk_dedup_ops(&mut st, &mut abs, ops);
    *st_ref = st;
    *abs_ref = abs;
    r
}
fn chk_dedup_ops(st_ref: &mut St, abs_ref: &mut Abs, ops: &[&str]) -> Result<(), String> {
    let mut st = std::mem::replace(st_ref, fresh(false));
    let mut abs = std::mem::replace(abs_ref, Abs::new());
    let r = (|| -> Result<(), String> {
    for o in ops.iter().copied() {
        let f: Vec<&str> = o.split(':').collect();
        match f.as_slice() {
            ["s", _, r] => {
                let old = std::mem::replace(&mut st, fresh(*r == "a"));
                let b = write_bytes(old)?;
                chk_dedup_bytes(&b, &abs.tiles)?;
                st = reopen(*r == "a", b, FULL)?;
            }
            ["o", r, rg, b] => {
                let bytes = unhex_bytes(b);
                let v = spec::parse(&bytes, false).map_err(|e| format!("harness: foreign archive invalid: {e}"))?;
                let all = spec::all_tiles(&v, 1_000_000)?;
                let range = parse_range(rg);
                abs = Abs::new();
                for (id, ol) in all {
                    if std::ops::RangeBounds::contains(&range, &id) {
                        abs.tiles.insert(id, spec::tile_bytes(&bytes, &v.header, ol)?.to_vec());
                    }
                }
                st = reopen(*r == "a", bytes, range)?;
            }
            ["g", id] => {
                // a lookup must not change what is stored (caches, promotions)
                let id = unhex_u64(id);
                if get(&mut st, id)?.as_ref() != abs.tiles.get(&id) {
                    return Err(format!("lookup of {id} returns other bytes than were added"));
                }
            }
            ["l"] | ["n"] | ["p"] | ["q"] => {}
            _ => {
                apply_ops(&mut st, &[o])?;
                abs.apply(o);
            }
        }
    }
    Ok(())
    })();
    *st_ref = st;
    *abs_ref = abs;
    r
}

// ---------------------------------------------------------------------------------------------
// C04 (+ the retention clause of C10 through the snapshot hook)
// ---------------------------------------------------------------------------------------------
fn check_snapshot(st: &St, abs: &Abs) -> Result<(), String> {
    let s = match st {
        St::S(p) => p.verif_snapshot(),
        St::A(p) => p.verif_snapshot(),
    };
    // in-memory tiles and their contents
    let mut used: BTreeMap<u64, BTreeSet<u64>> = BTreeMap::new(); // hash -> ids
    for (id, t) in &s.tile_by_id {
        if let Ok(h) = t {
            used.entry(*h).or_default().insert(*id);
        }
        if !abs.tiles.contains_key(id) {
            return Err(format!("tile_by_id holds id {id} which the map does not"));
        }
    }
    if s.tile_by_id.len() != abs.tiles.len() {
        return Err("tile_by_id size differs from the map".into());
    }
    let stored: BTreeSet<u64> = s.data_by_hash.iter().map(|(h, _)| *h).collect();
    let live: BTreeSet<u64> = used.keys().copied().collect();
    if stored != live {
        let unused = stored.difference(&live).count();
        let missing = live.difference(&stored).count();
        return Err(format!("stored contents do not match contents in use: {unused} stored but unreferenced, {missing} referenced but not stored"));
    }
    for (h, d) in &s.data_by_hash {
        for id in &used[h] {
            if abs.tiles.get(id) != Some(d) {
                return Err(format!("stored content for id {id} differs from the map"));
            }
        }
    }
    // one stored copy per distinct content
    let distinct: BTreeSet<&Vec<u8>> = s.data_by_hash.iter().map(|(_, d)| d).collect();
    if distinct.len() != s.data_by_hash.len() {
        return Err("the same content is stored twice".into());
    }
    let refs: BTreeMap<u64, BTreeSet<u64>> = s.ids_by_hash.iter().map(|(h, v)| (*h, v.iter().copied().collect())).collect();
    if refs != used {
        return Err("reference sets (ids_by_hash) differ from the ids actually using each content".into());
    }
    Ok(())
}
fn chk_hist_map(mode: &str, ops: &str) -> Result<(), String> {
    let mut st = fresh(mode == "async");
    let mut abs = Abs::new();
    let mut probe: BTreeSet<u64> = BTreeSet::new();
    for (n, o) in split_ops(ops).into_iter().enumerate() {
        let f: Vec<&str> = o.split(':').collect();
        match f.as_slice() {
            ["s", w, r] => {
                if (*w == "a") != is_async_state(&st) {
                    return Err("harness: write family mismatch".into());
                }
                let old = std::mem::replace(&mut st, fresh(*r == "a"));
                let b = write_bytes(old)?;
                st = reopen(*r == "a", b, FULL)?;
                // coordinates are quantised by a save; the map semantics do not involve them
            }
            ["o", r, rg, b] => {
                let bytes = unhex_bytes(b);
                let v = spec::parse(&bytes, false).map_err(|e| format!("harness: foreign archive invalid: {e}"))?;
                let all = spec::all_tiles(&v, 1_000_000)?;
                let range = parse_range(rg);
                abs = Abs::new();
                for (id, ol) in all {
                    if std::ops::RangeBounds::contains(&range, &id) {
                        abs.tiles.insert(id, spec::tile_bytes(&bytes, &v.header, ol)?.to_vec());
                    }
                }
                st = reopen(*r == "a", bytes, range)?;
            }
            ["g", id] => {
                probe.insert(unhex_u64(id));
            }
            ["f", id, nth] => {
                // the nth next read call of a fragmenting reader fails once (a transient I/O error): the lookup may fail,
                // but the archive must keep behaving like the map afterwards ("G" lookups follow in the given order)
                crate::streams::frag_fail_next(unhex_u64(nth) as u32 + 1);
                let _ = get_by_id(&mut st, unhex_u64(id));
                crate::streams::frag_fail_next(0);
                continue;
            }
            ["G", id] => {
                // one lookup, right now, and nothing else
                let id = unhex_u64(id);
                let got = get(&mut st, id)?;
                if got.as_ref() != abs.tiles.get(&id) {
                    return Err(format!("after op #{n}: lookup of {id} returns {:?}, the map says {:?}", got.map(|b| hex_bytes(&b)), abs.tiles.get(&id).map(|b| hex_bytes(b))));
                }
                continue;
            }
            ["l"] | ["n"] | ["p"] | ["q"] => {}
            _ => {
                if let ["a", id, _] | ["r", id] = f.as_slice() {
                    probe.insert(unhex_u64(id));
                }
                apply_ops(&mut st, &[o])?;
                abs.apply(o);
            }
        }
        // after every operation: listing, count, lookups of every id ever mentioned
        let ids = sorted_ids(&st);
        let want: Vec<u64> = abs.tiles.keys().copied().collect();
        if ids != want {
            return Err(format!("after op #{n} ({}): listing has {} ids, the map {}", &o[..o.len().min(40)], ids.len(), want.len()));
        }
        if count(&st) != want.len() {
            return Err(format!("after op #{n}: num_tiles() = {} but the map has {}", count(&st), want.len()));
        }
        for id in &probe {
            let got = get(&mut st, *id)?;
            if got.as_ref() != abs.tiles.get(id) {
                return Err(format!("after op #{n} ({}): lookup of {id} returns {:?}, the map says {:?}", &o[..o.len().min(40)], got.map(|b| hex_bytes(&b)), abs.tiles.get(id).map(|b| hex_bytes(b))));
            }
        }
        check_snapshot(&st, &abs).map_err(|e| format!("after op #{n} ({}): {e}", &o[..o.len().min(40)]))?;
    }
    compare_content(&mut st, &abs.tiles, "at the end of the history")
}

// ---------------------------------------------------------------------------------------------
// C03
// ---------------------------------------------------------------------------------------------
fn chk_foreign(mode: &str, bytes: &[u8]) -> Result<(), String> {
    let v = spec::parse(bytes, false).map_err(|e| format!("harness: archive not spec-valid: {e}"))?;
    let all = spec::all_tiles(&v, 5_000_000)?;
    let mut st = reopen(mode == "async", bytes.to_vec(), FULL)?;
    let ids = sorted_ids(&st);
    let want: Vec<u64> = all.keys().copied().collect();
    if ids != want {
        return Err(format!("opened archive lists {} ids, its directories address {}", ids.len(), want.len()));
    }
    if count(&st) != want.len() {
        return Err("num_tiles differs from the addressed tiles".into());
    }
    let step = (all.len() / 2000).max(1);
    for (k, (id, ol)) in all.iter().enumerate() {
        if k % step != 0 && k + 3 < all.len() {
            continue;
        }
        let wantb = spec::tile_bytes(bytes, &v.header, *ol)?;
        match get(&mut st, *id)? {
            Some(b) if b == wantb => {}
            Some(_) => return Err(format!("tile {id}: bytes differ from tile-data offset + entry offset (+{}, {} bytes)", ol.0, ol.1)),
            None => return Err(format!("tile {id} is addressed but not returned")),
        }
        // the specification's lookup agrees
        if spec::lookup(bytes, &v.header, *id)? != Some(*ol) {
            return Err(format!("harness: reference lookup disagrees with the reference walker for {id}"));
        }
    }
    let keyset: BTreeSet<u64> = all.keys().copied().collect();
    for id in absent_ids(&keyset) {
        if get(&mut st, id)?.is_some() {
            return Err(format!("tile {id} is not addressed but a tile is returned"));
        }
    }
    // header settings and metadata as stored
    let tok = hdr_tok(&st);
    let f: Vec<&str> = tok[1..].split(':').collect();
    let h = &v.header;
    let want_int = [u64::from(h.ttype), u64::from(h.tcomp), u64::from(h.icomp), u64::from(h.minz), u64::from(h.maxz), u64::from(h.cz)];
    for k in 0..6 {
        if unhex_u64(f[k]) != want_int[k] {
            return Err(format!("header field #{k} reported as {} but stored as {}", f[k], want_int[k]));
        }
    }
    for k in 0..6 {
        if parse_f64(f[6 + k]) != f64::from(h.coords[k]) / 1e7 {
            return Err(format!("coordinate #{k} reported as {:e} but stored as {}e-7", parse_f64(f[6 + k]), h.coords[k]));
        }
    }
    if unhex_bytes(f[12]) != serde_json::to_vec(&v.meta).unwrap() {
        return Err("metadata reported differs from the stored object".into());
    }
    Ok(())
}
fn chk_fixture(name: &str) -> Result<(), String> {
    let repo = std::env::var("PM_REPO").unwrap_or_else(|_| "/repo".into());
    let bytes = std::fs::read(format!("{repo}/test/{name}")).map_err(|e| format!("fixture: {e}"))?;
    let v = spec::parse(&bytes, false).map_err(|e| format!("harness: fixture not spec-valid: {e}"))?;
    for mode in ["sync", "async"] {
        let mut st = reopen(mode == "async", bytes.clone(), FULL)?;
        let total: u64 = v.tile_entries.iter().map(|e| u64::from(e.run)).sum();
        if count(&st) as u64 != total {
            return Err(format!("{name}: {} tiles opened, the directories address {total}", count(&st)));
        }
        let has_data = v.header.data_off + v.header.data_len <= bytes.len() as u64;
        let step = (v.tile_entries.len() / 300).max(1);
        for e in v.tile_entries.iter().step_by(step) {
            for id in [e.id, e.id + u64::from(e.run) - 1] {
                if has_data {
                    let want = spec::tile_bytes(&bytes, &v.header, (e.off, e.len))?;
                    match get(&mut st, id)? {
                        Some(b) if b == want => {}
                        _ => return Err(format!("{name}: tile {id} differs from the bytes its entry addresses")),
                    }
                }
            }
        }
    }
    Ok(())
}
fn chk_dir_find(es: &[Entry], id: u64) -> Result<(), String> {
    let d = pmtiles2::Directory::from(es.to_vec());
    let want: Vec<&Entry> = es.iter().filter(|e| e.run_length > 0 && e.tile_id <= id && id - e.tile_id < u64::from(e.run_length)).collect();
    match (d.find_entry_for_tile_id(id), want.first()) {
        (None, None) => Ok(()),
        (Some(e), Some(w)) if e == *w => Ok(()),
        (got, w) => Err(format!("find_entry_for_tile_id({id}) = {got:?}, expected {w:?}")),
    }
}

// ---------------------------------------------------------------------------------------------
// C11
// ---------------------------------------------------------------------------------------------
fn chk_partial(mode: &str, rg: Range, bytes: &[u8]) -> Result<(), String> {
    let asy = mode == "async";
    let mut full = reopen(asy, bytes.to_vec(), FULL).map_err(|e| format!("harness: full open fails: {e}"))?;
    let ids = sorted_ids(&full);
    let mut part = reopen(asy, bytes.to_vec(), rg).map_err(|e| format!("partial open {} fails although the full open succeeds: {e}", range_tok(&rg)))?;
    let want: Vec<u64> = ids.iter().copied().filter(|i| std::ops::RangeBounds::contains(&rg, i)).collect();
    let got = sorted_ids(&part);
    if got != want {
        let miss: Vec<&u64> = want.iter().filter(|i| !got.contains(i)).take(3).collect();
        let extra: Vec<&u64> = got.iter().filter(|i| !want.contains(i)).take(3).collect();
        return Err(format!("partial open {} lists {} ids, the restriction of the full open has {} (missing e.g. {miss:?}, extra e.g. {extra:?})", range_tok(&rg), got.len(), want.len()));
    }
    if count(&part) != want.len() {
        return Err("num_tiles of the partial open differs".into());
    }
    let step = (want.len() / 500).max(1);
    for id in want.iter().step_by(step) {
        if get(&mut part, *id)? != get(&mut full, *id)? {
            return Err(format!("tile {id} has different bytes in the partial open"));
        }
    }
    for id in ids.iter().filter(|i| !std::ops::RangeBounds::contains(&rg, *i)).take(20) {
        if get(&mut part, *id)?.is_some() {
            return Err(format!("tile {id} lies outside {} but is returned", range_tok(&rg)));
        }
    }
    Ok(())
}
fn ranges_for(rng: &mut Rng, pts: &[u64]) -> Vec<Range> {
    let mut v: Vec<Range> = vec![
        FULL,
        (Bound::Unbounded, Bound::Excluded(0)),
        (Bound::Unbounded, Bound::Included(0)),
        (Bound::Included(0), Bound::Excluded(0)),
        (Bound::Excluded(0), Bound::Unbounded),
        (Bound::Excluded(u64::MAX), Bound::Unbounded),
        (Bound::Included(u64::MAX), Bound::Included(u64::MAX)),
        (Bound::Unbounded, Bound::Excluded(u64::MAX)),
        (Bound::Included(5), Bound::Included(3)),
        (Bound::Excluded(5), Bound::Excluded(5)),
        (Bound::Excluded(5), Bound::Excluded(6)),
    ];
    let mk = |k: u64, v: u64| match k % 3 {
        0 => Bound::Included(v),
        1 => Bound::Excluded(v),
        _ => Bound::Unbounded,
    };
    for (i, p) in pts.iter().enumerate() {
        for d in [0i64, -1, 1] {
            let a = p.wrapping_add(d as u64);
            let other = pts[rng.below(pts.len() as u64) as usize];
            v.push((mk(rng.next(), a.min(other)), mk(i as u64, a.max(other))));
            v.push((mk(i as u64, a), mk(rng.next(), other)));
            v.push((Bound::Unbounded, mk(i as u64 % 2, a)));
            v.push((mk(i as u64 % 2, a), Bound::Unbounded));
        }
        // bounds a multiple of 2^32 (and of 2^16) away from a point of interest: distances must not be narrowed
        if i < 3 {
            for (k, step) in [1u64 << 32, 1 << 33, 1 << 16, (1 << 32) + 2].iter().enumerate() {
                if let Some(far) = p.checked_add(*step) {
                    v.push((mk(k as u64 % 2, far), Bound::Unbounded));
                    v.push((mk(k as u64 % 2, far), mk((k as u64 + 1) % 2, far.saturating_add(9))));
                }
                if let Some(near) = p.checked_sub(*step) {
                    v.push((Bound::Unbounded, mk(k as u64 % 2, near)));
                }
            }
        }
    }
    v
}

// ---------------------------------------------------------------------------------------------
// C06
// ---------------------------------------------------------------------------------------------
fn to_s(es: &[Entry]) -> Vec<SEntry> {
    es.iter().map(|e| SEntry { id: e.tile_id, off: e.offset, len: e.length, run: e.run_length }).collect()
}
fn chk_spill(mode: &str, c: Compression, start: Option<usize>, pos: u64, es: &[Entry]) -> Result<(), String> {
    let asy = mode == "async";
    let pre = vec![0xEEu8; pos as usize];
    let o = wdirs(asy, c, start, pos, &pre, es).map_err(|e| format!("write_directories failed: {e}"))?;
    if o.img[..pos as usize] != pre[..] {
        return Err("bytes before the starting position were modified".into());
    }
    let root_len = o.pos - pos;
    let code = comp_code(c) as u8;
    let root_raw = &o.img[pos as usize..o.pos as usize];
    let root = spec::decode_dir(&spec::codec_decompress(code, root_raw)?).map_err(|e| format!("root directory does not decode: {e}"))?;
    let whole = crate::ops::dir_enc(asy, c, es).map_err(|e| format!("encode: {e}"))?;
    let want = to_s(es);
    if whole.len() as u64 <= 16257 {
        if !o.leaf.is_empty() {
            return Err(format!("the list fits into {} bytes but a leaf section of {} bytes was written", whole.len(), o.leaf.len()));
        }
        if root != want {
            return Err("the root directory does not hold the original entries".into());
        }
        if root_raw != &whole[..] {
            return Err("root bytes differ from the plain serialisation of the list".into());
        }
        return Ok(());
    }
    if root_len > 16257 {
        return Err(format!("root directory is {root_len} bytes (> 16257)"));
    }
    if o.leaf.is_empty() {
        return Err("the list does not fit but no leaf section was written".into());
    }
    let mut resolved: Vec<SEntry> = Vec::new();
    let mut expect_off = 0u64;
    for p in &root {
        if p.run != 0 {
            return Err("the root directory of a spilled list contains a non-pointer entry".into());
        }
        if p.off != expect_off {
            return Err(format!("leaf pointer offset {} but the previous leaves end at {expect_off}", p.off));
        }
        let end = p.off + u64::from(p.len);
        if end > o.leaf.len() as u64 {
            return Err("leaf pointer reaches outside the leaf section".into());
        }
        let leaf = spec::decode_dir(&spec::codec_decompress(code, &o.leaf[p.off as usize..end as usize])?).map_err(|e| format!("leaf does not decode with its exact length: {e}"))?;
        if leaf.is_empty() || leaf[0].id != p.id {
            return Err(format!("leaf pointer carries id {} but its leaf starts at {:?}", p.id, leaf.first().map(|e| e.id)));
        }
        // exact length: re-encoding the leaf gives exactly these bytes
        let re = crate::ops::dir_enc(false, c, &leaf.iter().map(|e| Entry { tile_id: e.id, offset: e.off, length: e.len, run_length: e.run }).collect::<Vec<_>>()).map_err(|e| e.to_string())?;
        if re.len() as u64 != u64::from(p.len) {
            return Err(format!("leaf pointer length {} but the leaf serialises to {} bytes", p.len, re.len()));
        }
        resolved.extend(leaf);
        expect_off = end;
    }
    if expect_off != o.leaf.len() as u64 {
        return Err(format!("leaf section has {} bytes but the pointers cover {expect_off}", o.leaf.len()));
    }
    if resolved != want {
        return Err(format!("resolving root and leaves gives {} entries, the original list has {}", resolved.len(), want.len()));
    }
    // the library's own reader on the assembled bytes
    let mut img = o.img[..o.pos as usize].to_vec();
    let leaf_off = img.len() as u64;
    img.extend_from_slice(&o.leaf);
    let m = rdirs(asy, c, pos, root_len, leaf_off, FULL, &img).map_err(|e| format!("read_directories on the written bytes failed: {e}"))?;
    let mut exp: BTreeMap<u64, (u64, u32)> = BTreeMap::new();
    for e in es {
        for k in 0..u64::from(e.run_length).min(100_000) {
            exp.insert(e.tile_id + k, (e.offset, e.length));
        }
    }
    if m != exp {
        return Err("read_directories on the written root and leaves differs from the expansion of the original entries".into());
    }
    Ok(())
}
/// entries whose plain encoding takes exactly 4 bytes each (plus leaf pointers never appear)
fn tiny_entries(n: usize) -> Vec<Entry> {
    (0..n).map(|i| Entry { tile_id: i as u64 * 2, offset: (i as u64) * 3 % 100, length: 1 + (i % 100) as u32, run_length: 1 }).collect()
}
fn entries_for_size(rng: &mut Rng, c: Compression, target: usize, st: &mut Stats) -> Vec<Entry> {
    // grow a random list until its serialisation reaches `target` bytes (bisect on the count)
    let full = valid_entries(rng, 40_000, false, false, st);
    let (mut lo, mut hi) = (0usize, full.len());
    while lo + 1 < hi {
        let mid = (lo + hi) / 2;
        let l = crate::ops::dir_enc(false, c, &full[..mid]).map(|b| b.len()).unwrap_or(usize::MAX);
        if l < target {
            lo = mid;
        } else {
            hi = mid;
        }
    }
    full[..hi].to_vec()
}

// ---------------------------------------------------------------------------------------------
// C16
// ---------------------------------------------------------------------------------------------
fn run_to_bytes(mode: &str, ops: &str) -> Result<Vec<u8>, String> {
    let mut st = fresh(mode == "async");
    for o in split_ops(ops) {
        if o.starts_with("s:") {
            let f: Vec<&str> = o.split(':').collect();
            let old = std::mem::replace(&mut st, fresh(f[2] == "a"));
            let b = write_bytes(old)?;
            st = reopen(f[2] == "a", b, FULL)?;
        } else {
            apply_ops(&mut st, &[o])?;
        }
    }
    write_bytes(st)
}
fn chk_canonical(mode: &str, a: &str, b: &str) -> Result<(), String> {
    let x = run_to_bytes(mode, a)?;
    let y = run_to_bytes(mode, b)?;
    if x != y {
        let pos = x.iter().zip(y.iter()).position(|(p, q)| p != q).unwrap_or(x.len().min(y.len()));
        return Err(format!("two histories reaching the same logical archive serialise differently ({} vs {} bytes, first difference at {pos})", x.len(), y.len()));
    }
    Ok(())
}
fn chk_rewrite(mode: &str, ops: &str) -> Result<(), String> {
    let x = run_to_bytes(mode, ops)?;
    for rmode in ["sync", "async"] {
        let st = reopen(rmode == "async", x.clone(), FULL)?;
        if rmode != mode {
            continue; // codec bytes of the two API families differ; rewrite is compared within one family
        }
        let y = write_bytes(st)?;
        if x != y {
            let pos = x.iter().zip(y.iter()).position(|(p, q)| p != q).unwrap_or(x.len().min(y.len()));
            return Err(format!("writing an archive that was just read back changed the bytes ({} vs {} bytes, first difference at {pos})", x.len(), y.len()));
        }
    }
    Ok(())
}
/// an archive opened from a foreign (possibly not deduplicated, unordered, nested) file and an archive rebuilt in
/// memory with the same tiles and settings must serialise identically
fn chk_foreign_rewrite(mode: &str, bytes: &[u8]) -> Result<(), String> {
    let asy = mode == "async";
    let mut st = reopen(asy, bytes.to_vec(), FULL)?;
    let tok = hdr_tok(&st);
    let f: Vec<&str> = tok[1..].split(':').collect();
    let mut ids: Vec<u64> = match &st {
        St::S(p) => p.tile_ids().into_iter().copied().collect(),
        St::A(p) => p.tile_ids().into_iter().copied().collect(),
    };
    ids.sort_unstable();
    let mut ops: Vec<String> = vec![
        format!("h:{}:{}:{}:{}:{}:{}", f[0], f[1], f[3], f[4], f[5], f[6..12].join(":")),
        format!("c:{}", ["unknown", "none", "gzip", "brotli", "zstd"][unhex_u64(f[2]) as usize % 5]),
        format!("m:{}", f[12]),
    ];
    for id in ids.iter().rev() {
        match get_by_id(&mut st, *id) {
            Ok(Ok(Some(b))) => ops.push(format!("a:{id:x}:{}", hex_bytes(&b))),
            _ => return Err(format!("harness: tile {id} of the foreign archive is not readable")),
        }
    }
    let x = write_bytes(st)?;
    let y = run_to_bytes(mode, &ops.join(";"))?;
    if x != y {
        let pos = x.iter().zip(y.iter()).position(|(p, q)| p != q).unwrap_or(x.len().min(y.len()));
        return Err(format!("a reader-backed archive and an in-memory archive with the same content serialise differently ({} vs {} bytes, first difference at {pos})", x.len(), y.len()));
    }
    Ok(())
}
/// a content of `size` bytes held by a reader-backed tile and by a tile added after reopening: the archive is the one
/// that holds all three tiles in memory (built through the API, the contents are too large for a case line)
fn chk_big_shared(mode: &str, size: usize) -> Result<(), String> {
    let asy = mode == "async";
    let big: Vec<u8> = (0..size).map(|i| (i as u64).wrapping_mul(0x9e37_79b9_7f4a_7c15).to_le_bytes()[(i / 7) % 8]).collect();
    let none = |st: &mut St| match st {
        St::S(p) => p.internal_compression = Compression::None,
        St::A(p) => p.internal_compression = Compression::None,
    };
    let mut a = fresh(asy);
    none(&mut a);
    add_any(&mut a, 5, big.clone()).map_err(|e| e.to_string())?;
    add_any(&mut a, 7, vec![1, 2]).map_err(|e| e.to_string())?;
    add_any(&mut a, 10, big.clone()).map_err(|e| e.to_string())?;
    let all_in_memory = write_bytes(a)?;
    let mut b = fresh(asy);
    none(&mut b);
    add_any(&mut b, 5, big.clone()).map_err(|e| e.to_string())?;
    add_any(&mut b, 7, vec![1, 2]).map_err(|e| e.to_string())?;
    let first = write_bytes(b)?;
    let mut b = reopen(asy, first, FULL)?;
    add_any(&mut b, 10, big).map_err(|e| e.to_string())?;
    let mixed = write_bytes(b)?;
    if mixed != all_in_memory {
        return Err(format!("a {size}-byte content held by a reader-backed tile and by a tile added after reopening: {} bytes are written, {} when all tiles are in memory", mixed.len(), all_in_memory.len()));
    }
    Ok(())
}
/// two archives over one shared stream handle; the first looks a tile up and removes it, the second moves the handle, the
/// first is saved: the bytes are those of the in-memory history without that tile
fn chk_shared_rewrite(mode: &str, ops: &str) -> Result<(), String> {
    use crate::streams::{AShared, Core, Shared};
    use futures::executor::block_on;
    let bytes = run_to_bytes(mode, ops)?;
    let v = spec::parse(&bytes, true).map_err(|e| format!("harness: {e}"))?;
    let ids: Vec<u64> = spec::all_tiles(&v, 1_000_000)?.keys().copied().collect();
    if ids.len() < 3 {
        return Ok(());
    }
    let (first, mid) = (ids[0], ids[ids.len() / 2]);
    let want = run_to_bytes(mode, &format!("{ops};r:{first:x}"))?;
    let got: Vec<u8> = if mode == "async" {
        let sh = AShared::new(Core::new(bytes.clone(), 0));
        let mut a = block_on(pmtiles2::PMTiles::from_async_reader(sh.clone())).map_err(|e| e.to_string())?;
        sh.0.lock().unwrap().pos = 0;
        let mut b = block_on(pmtiles2::PMTiles::from_async_reader(sh.clone())).map_err(|e| e.to_string())?;
        let _ = block_on(a.get_tile_by_id_async(first)).map_err(|e| e.to_string())?;
        a.remove_tile(first);
        let _ = block_on(b.get_tile_by_id_async(mid)).map_err(|e| e.to_string())?;
        let mut out = futures::io::Cursor::new(Vec::new());
        block_on(a.to_async_writer(&mut out)).map_err(|e| e.to_string())?;
        out.into_inner()
    } else {
        let sh = Shared::new(Core::new(bytes.clone(), 0));
        let mut a = pmtiles2::PMTiles::from_reader(sh.clone()).map_err(|e| e.to_string())?;
        sh.0.borrow_mut().pos = 0;
        let mut b = pmtiles2::PMTiles::from_reader(sh.clone()).map_err(|e| e.to_string())?;
        let _ = a.get_tile_by_id(first).map_err(|e| e.to_string())?;
        a.remove_tile(first);
        let _ = b.get_tile_by_id(mid).map_err(|e| e.to_string())?;
        let mut out = std::io::Cursor::new(Vec::new());
        a.to_writer(&mut out).map_err(|e| e.to_string())?;
        out.into_inner()
    };
    if got != want {
        let pos = got.iter().zip(want.iter()).position(|(p, q)| p != q).unwrap_or(got.len().min(want.len()));
        return Err(format!("an archive whose stream handle was moved by another archive between a lookup and its save serialises differently from the in-memory history ({} vs {} bytes, first difference at {pos})", got.len(), want.len()));
    }
    Ok(())
}
/// an archive opened with a range filter and saved: the bytes are those of an in-memory archive holding exactly the
/// tiles the specification-level reader finds inside the range
fn chk_partial_rewrite(mode: &str, rg: Range, bytes: &[u8]) -> Result<(), String> {
    let asy = mode == "async";
    let v = spec::parse(bytes, false).map_err(|e| format!("harness: archive invalid: {e}"))?;
    let st = reopen(asy, bytes.to_vec(), rg)?;
    let tok = hdr_tok(&st);
    let f: Vec<&str> = tok[1..].split(':').collect();
    let mut ops: Vec<String> = vec![
        format!("h:{}:{}:{}:{}:{}:{}", f[0], f[1], f[3], f[4], f[5], f[6..12].join(":")),
        format!("c:{}", ["unknown", "none", "gzip", "brotli", "zstd"][unhex_u64(f[2]) as usize % 5]),
        format!("m:{}", f[12]),
    ];
    for (id, ol) in spec::all_tiles(&v, 1_000_000)? {
        if std::ops::RangeBounds::contains(&rg, &id) {
            ops.push(format!("a:{id:x}:{}", hex_bytes(spec::tile_bytes(bytes, &v.header, ol)?)));
        }
    }
    let x = write_bytes(st)?;
    let y = run_to_bytes(mode, &ops.join(";"))?;
    if x != y {
        let pos = x.iter().zip(y.iter()).position(|(p, q)| p != q).unwrap_or(x.len().min(y.len()));
        return Err(format!("an archive opened with the range {} and saved differs from an in-memory archive with the tiles of that range ({} vs {} bytes, first difference at {pos})", range_tok(&rg), x.len(), y.len()));
    }
    Ok(())
}
/// the bytes of an archive must not depend on what the same thread wrote before (state kept between calls): a leaf-spilling
/// archive is written, then a very large sparse archive whose write has to double the leaf size, then the first again
fn chk_history_independent(mode: &str, ops: &str) -> Result<(), String> {
    let before = run_to_bytes(mode, ops)?;
    {
        let mut st = fresh(mode == "async");
        match &mut st {
            St::S(p) => p.internal_compression = Compression::None,
            St::A(p) => p.internal_compression = Compression::None,
        }
        for i in 0..5_200_000u64 {
            let c = vec![(i % 251) as u8 + 1, (i / 251 % 251) as u8];
            let r = match &mut st {
                St::S(p) => p.add_tile(i << 39, c),
                St::A(p) => p.add_tile(i << 39, c),
            };
            r.map_err(|e| format!("add_tile: {e}"))?;
        }
        let _ = write_bytes(st)?;
    }
    let after = run_to_bytes(mode, ops)?;
    if before != after {
        let pos = before.iter().zip(after.iter()).position(|(p, q)| p != q).unwrap_or(before.len().min(after.len()));
        return Err(format!("the same archive serialises differently after the thread has written another, large archive ({} vs {} bytes, first difference at {pos})", before.len(), after.len()));
    }
    Ok(())
}
fn chk_xproc(mode: &str, ops: &str) -> Result<(), String> {
    // two fresh OS processes (differently seeded std hash maps) must produce the same bytes
    let exe = std::env::current_exe().map_err(|e| e.to_string())?;
    let mut outs = Vec::new();
    for _ in 0..2 {
        let o = std::process::Command::new(&exe).args(["bytes", mode, ops]).output().map_err(|e| e.to_string())?;
        if !o.status.success() {
            return Err("child process failed".into());
        }
        outs.push(o.stdout);
    }
    let here = run_to_bytes(mode, ops)?;
    if outs[0] != outs[1] || hex_bytes(&here).as_bytes() != outs[0].strip_suffix(b"\n").unwrap_or(&outs[0]) {
        return Err("the same history serialises differently in different processes".into());
    }
    Ok(())
}
pub fn bytes_cmd(mode: &str, ops: &str) {
    match run_to_bytes(mode, ops) {
        Ok(b) => println!("{}", hex_bytes(&b)),
        Err(e) => {
            eprintln!("{e}");
            std::process::exit(1)
        }
    }
}
/// a history with detours that ends in the logical archive `l`
fn detour_ops(l: &Logical, rng: &mut Rng, mode: &str) -> Vec<String> {
    let m = &mode[..1];
    let mut ops: Vec<String> = Vec::new();
    let ids: Vec<u64> = l.tiles.keys().copied().collect();
    // wrong contents first, extra tiles that are removed again, a save in the middle
    for id in ids.iter().take(ids.len() / 2) {
        ops.push(format!("a:{id:x}:{}", hex_bytes(&rng.bytes_range(1, 9))));
    }
    for k in 0..3u64 {
        ops.push(format!("a:{:x}:0f0f", BASE32 - 2 - k));
    }
    if rng.chance(1, 2) {
        ops.push(format!("c:{}", comp_tok(ALL_COMP[rng.below(4) as usize])));
        ops.push(format!("s:{m}:{m}"));
    }
    for k in 0..3u64 {
        ops.push(format!("r:{:x}", BASE32 - 2 - k));
    }
    let mut adds = add_ops(l, rng, true);
    if rng.chance(1, 2) && adds.len() > 2 {
        let tail = adds.split_off(adds.len() / 2);
        ops.extend(adds);
        ops.push(format!("s:{m}:{m}"));
        ops.extend(tail);
    } else {
        ops.extend(adds);
    }
    // (after the final adds, so that nothing repairs the store afterwards)
    // idempotent re-adds and temporary twins: an id added twice with the same content, another id given
    // the same content (before or after) and removed again
    for (n, (id, c)) in l.tiles.iter().enumerate().take(6) {
        let twin = BASE32 - 10 - n as u64;
        let h = hex_bytes(c);
        match n % 3 {
            0 => ops.extend([format!("a:{id:x}:{h}"), format!("a:{id:x}:{h}"), format!("a:{twin:x}:{h}"), format!("r:{twin:x}")]),
            1 => ops.extend([format!("a:{twin:x}:{h}"), format!("a:{id:x}:{h}"), format!("a:{id:x}:{h}"), format!("r:{twin:x}")]),
            _ => ops.extend([format!("a:{id:x}:{h}"), format!("a:{twin:x}:{h}"), format!("a:{id:x}:{h}"), format!("r:{twin:x}")]),
        }
    }
    ops.extend(settings_ops(l));
    ops
}

// ---------------------------------------------------------------------------------------------
// generators
// ---------------------------------------------------------------------------------------------
fn probe_ops(keys: &[u64], rng: &mut Rng, max: usize) -> Vec<String> {
    let mut v = vec!["q".to_string(), "l".into(), "n".into()];
    let step = (keys.len() / max).max(1);
    for id in keys.iter().step_by(step) {
        v.push(format!("g:{id:x}"));
    }
    for id in keys.iter().take(6) {
        v.push(format!("g:{:x}", id + 1));
        if let Ok((z, x, y)) = pmtiles2::util::zxy(*id) {
            v.push(format!("x:{x:x}:{y:x}:{z:x}"));
        }
    }
    v.push(format!("g:{:x}", rng.spread(62)));
    v
}
fn fam(k: usize) -> (&'static str, &'static str) {
    [("sync", "sync"), ("async", "async"), ("sync", "async"), ("async", "sync")][k % 4]
}

/// cases shared by the archive-level properties: contents that a shortcut in the content hash would confuse, equal
/// contents exactly 2^32 ids apart, very many contents of one length
fn shared_store_cases(prop: &str, rng: &mut Rng, quick: bool, st: &mut Stats, c: &mut Vec<String>) {
    let push = |c: &mut Vec<String>, k: usize, a: String, b: Option<String>| {
        let (w, r) = fam(k);
        let m = &w[..1];
        let (a, b) = (a.replace("{M}", m), b.map(|x| x.replace("{M}", m)));
        match prop {
            "C01" => c.push(format!("chk_roundtrip {w} {r} {a}")),
            "C02" => c.push(format!("chk_valid {w} {a}")),
            "C04" => c.push(format!("chk_hist_map {w} {a};s:{m}:{m}")),
            "C10" => c.push(format!("chk_dedup {w} {a}")),
            "C16" => {
                if let Some(b) = b {
                    c.push(format!("chk_canonical {w} {a} {b}"));
                }
            }
            _ => {}
        }
    };
    // large contents of equal length that differ in ONE byte far from both ends (and from any sampled window)
    let sizes: &[usize] = if quick { &[17_000, 300_000] } else { &[17_000, 70_000, 300_000, 600_001, 1_100_000] };
    for (k, &n) in sizes.iter().enumerate() {
        let base = rng.bytes(n);
        let mut mid = base.clone();
        mid[n / 2] ^= 0x20;
        let mut q = base.clone();
        q[n / 4 + 3] ^= 1;
        let (a, b, d) = (hex_bytes(&base), hex_bytes(&mid), hex_bytes(&q));
        let m = "{M}";
        // all in memory; then: one stored, archive reopened, the twin added (reader-backed vs in-memory)
        if prop == "C16" {
            // the same two (three) tiles added in either order, in memory and with one of them reader-backed
            push(c, k, format!("c:none;a:5:{a};a:6:{b}"), Some(format!("c:none;a:6:{b};a:5:{a}")));
            push(c, k + 1, format!("c:none;a:5:{a};s:{m}:{m};a:6:{b}"), Some(format!("c:none;a:6:{b};s:{m}:{m};a:5:{a}")));
            push(c, k, format!("c:none;a:5:{a};a:6:{d};a:9:{b}"), Some(format!("c:none;a:9:{b};a:6:{d};a:5:{a}")));
        } else {
            // all in memory; then: one stored, archive reopened, the twin added (reader-backed vs in-memory)
            push(c, k, format!("c:none;a:5:{a};a:6:{b};a:9:{d};a:c:{a}"), None);
            push(c, k + 1, format!("c:none;a:5:{a};a:7:0102;s:{m}:{m};a:6:{b};a:9:{d}"), None);
        }
        st.bump("large_contents_differing_in_one_middle_byte");
    }
    // coordinates a few ulps away from the half-step ties next to zero (products of about +-0.5 and +-1.5)
    if prop == "C01" || prop == "C16" {
        for k in 0..4u64 {
            let mut f: Vec<String> = Vec::new();
            for j in 0..6u64 {
                let i = [0i64, -1, 1, -2][((k + j) % 4) as usize];
                let t = (i as f64 + 0.5) / 1e7;
                let bits = t.to_bits().wrapping_add(1 + (k + 2 * j) % 4).wrapping_sub(if j % 2 == 0 { 0 } else { 5 });
                f.push(f64_tok(f64::from_bits(bits)));
            }
            let ops = format!("h:1:1:0:5:2:{};a:3:0102;a:9:0304", f.join(":"));
            push(c, k as usize, ops.clone(), Some(format!("a:9:0304;a:3:0102;h:1:1:0:5:2:{}", f.join(":"))));
            st.bump("coordinates_next_to_the_ties_around_zero");
        }
    }
    // archives without a codec whose root directory bytes begin like a gzip member (1f 8b 08: 31 entries, first id 1035)
    // or a zstd frame (28 b5 2f fd: 40 entries, first id 6069, second 6069 + 253): nothing may sniff the content
    for (k, (n, first, second_gap)) in [(31u64, 1035u64, 1u64), (40, 6069, 253)].iter().enumerate() {
        let mut ops: Vec<String> = vec!["c:none".into()];
        let mut id = *first;
        for i in 0..*n {
            ops.push(format!("a:{id:x}:{:02x}{:02x}", i + 1, 0x40 + i));
            id += if i == 0 { *second_gap } else { 1 };
        }
        let mut rev = ops.clone();
        rev[1..].reverse();
        push(c, k, ops.join(";"), Some(rev.join(";")));
        st.bump("root_directory_bytes_beginning_like_a_compressed_stream");
    }
    // metadata whose values are JSON texts themselves (keys that other formats give a meaning: "json", "tilejson")
    if prop == "C01" || prop == "C16" {
        for (k, meta) in [r#"{"json":"{\"vector_layers\":[],\"name\":\"inner\"}","name":"outer"}"#, r#"{"JSON":"{}","json":"[1,2]","tilejson":"{\"a\":1}"}"#, r#"{"json":{"json":"{\"x\":true}"}}"#].iter().enumerate() {
            let ops = format!("m:{};a:3:0102;a:9:0304", hex_bytes(meta.as_bytes()));
            push(c, k, ops, Some(format!("a:9:0304;a:3:0102;m:{}", hex_bytes(meta.as_bytes()))));
            st.bump("metadata_holding_json_texts");
        }
    }
    // a run of duplicates directly followed by an entry stored exactly one / two / three lengths behind the run's content,
    // and a re-saved archive from which a tile between two copies was removed (equal lengths throughout)
    {
        let (a, b, d) = ("a1a2a3a4", "b1b2b3b4", "d1d2d3d4");
        for (k, ops) in [
            format!("c:none;a:1:{a};a:2:{b};a:3:{a};a:4:{a};a:5:{d}"),
            format!("c:none;a:1:{a};a:2:{b};a:3:{d};a:4:{a};a:5:{a};a:6:{a};a:7:{b};a:8:{d}"),
            format!("a:1:{a};a:2:{b};a:3:{d};a:4:{a};a:5:{b};s:{{M}}:{{M}};r:2"),
            format!("c:none;a:1:{a};a:2:{b};a:3:{d};a:4:{a};a:5:{b};s:{{M}}:{{M}};r:2;a:9:{b}"),
            format!("c:none;a:1:{a};a:2:{b};a:3:{d};s:{{M}}:{{M}};r:1;a:4:{a};a:5:{b};a:6:{b}"),
        ].iter().enumerate() {
            push(c, k, ops.clone(), None);
            st.bump("equal_length_contents_runs_and_neighbours");
        }
    }
    // equal contents whose ids are exactly 2^32 + run apart
    for (k, (dist, run)) in [(1u64 << 32, 3u64), (1 << 32, 1), (2 << 32, 2)].iter().enumerate() {
        let ca = "0a0b0c0d0e";
        let mut ops: Vec<String> = (0..*run).map(|i| format!("a:{:x}:{ca}", 10 + i)).collect();
        ops.push(format!("a:{:x}:{ca}", 10 + dist + run));
        ops.push(format!("a:{:x}:{ca}", 10 + dist + run + 1));
        let mut rev = ops.clone();
        rev.reverse();
        push(c, k, ops.join(";"), Some(rev.join(";")));
        st.bump("equal_contents_2pow32_ids_apart");
    }
    // very many distinct contents of one length, the first one used again at the end
    if prop != "C16" {
        // (C10: more than 2^20 contents, whatever the tier: a bounded dedup table would forget the first ones)
        let n: u64 = if quick && prop != "C10" { 300_000 } else { 1_100_000 };
        c.push(format!("chk_many_contents {} {n:x}", if prop == "C04" || prop == "C10" { "async" } else { "sync" }));
        st.bump("many_distinct_contents_of_one_length");
    }
}
/// n tiles with distinct 5-byte contents, then two more tiles repeating the first and the middle content; saved, checked
/// by the specification-level reader (every tile, and no content stored twice), reopened and looked up
fn chk_many_contents(mode: &str, n: u64) -> Result<(), String> {
    let mut st = fresh(mode == "async");
    let content = |i: u64| -> Vec<u8> { vec![(i >> 24) as u8, (i >> 16) as u8, (i >> 8) as u8, i as u8, 0x5a] };
    let mut want: BTreeMap<u64, Vec<u8>> = BTreeMap::new();
    let mut add = |st: &mut St, id: u64, d: Vec<u8>| -> Result<(), String> {
        want.insert(id, d.clone());
        match st {
            St::S(p) => p.add_tile(id, d),
            St::A(p) => p.add_tile(id, d),
        }
        .map_err(|e| format!("add_tile: {e}"))
    };
    for i in 0..n {
        add(&mut st, 2 * i, content(i))?;
    }
    add(&mut st, 2 * n + 7, content(0))?;
    add(&mut st, 2 * n + 9, content(n / 2))?;
    let b = write_bytes(st)?;
    let v = spec::parse(&b, true).map_err(|e| format!("the written archive is not a valid PMTiles v3 file: {e}"))?;
    if v.header.data_len != 5 * n || v.header.contents != n {
        return Err(format!("{n} distinct contents of 5 bytes (two of them used twice) are stored as {} contents in {} bytes", v.header.contents, v.header.data_len));
    }
    let all = spec::all_tiles(&v, 10_000_000)?;
    if all.len() != want.len() {
        return Err(format!("the directories address {} tiles, {} were added", all.len(), want.len()));
    }
    let mut bad = 0u64;
    let mut first_bad = None;
    for (id, ol) in &all {
        if want.get(id).map(|c| &c[..]) != Some(spec::tile_bytes(&b, &v.header, *ol)?) {
            bad += 1;
            first_bad.get_or_insert(*id);
        }
    }
    if bad > 0 {
        return Err(format!("{bad} of {} tiles come back with another tile's content (first: tile {})", all.len(), first_bad.unwrap_or(0)));
    }
    let mut back = reopen(mode == "async", b, FULL)?;
    for id in [0u64, 2, 2 * (n / 2), 2 * n - 2, 2 * n + 7, 2 * n + 9] {
        if get(&mut back, id)?.as_ref() != want.get(&id) {
            return Err(format!("lookup of tile {id} after reopening returns other bytes than were added"));
        }
    }
    Ok(())
}
pub fn gen(prop: &str, rng: &mut Rng, quick: bool, st: &mut Stats) -> Option<Vec<String>> {
    let mut c: Vec<String> = Vec::new();
    if ["C01", "C02", "C04", "C10", "C16"].contains(&prop) {
        shared_store_cases(prop, rng, quick, st, &mut c);
    }
    match prop {
        "C01" | "C02" => {
            let chk = if prop == "C01" { "chk_roundtrip" } else { "chk_valid" };
            let sizes: Vec<usize> = if quick { vec![0, 1, 2, 3, 5, 9, 17, 40, 80, 150, 300] } else { vec![0, 1, 2, 3, 5, 9, 17, 40, 80, 150, 300, 600, 1200] };
            let reps = if quick { 3 } else { 12 };
            let mut k = 0usize;
            for &n in &sizes {
                for _ in 0..reps {
                    let (w, r) = fam(k);
                    k += 1;
                    let l = gen_logical(rng, n, n <= 40 && k % 3 == 0, st);
                    let mut ops = settings_ops(&l);
                    ops.extend(add_ops(&l, rng, true));
                    let keys: Vec<u64> = l.tiles.keys().copied().collect();
                    let mut h = ops.clone();
                    h.push(format!("s:{}:{}", &w[..1], &r[..1]));
                    h.extend(probe_ops(&keys, rng, 60));
                    c.push(format!("hist {w} {}", h.join(";")));
                    if prop == "C01" {
                        c.push(format!("{chk} {w} {r} {}", ops.join(";")));
                    } else {
                        c.push(format!("{chk} {w} {}", ops.join(";")));
                    }
                    st.bump(&format!("logical_{}", comp_tok(l.icomp)));
                }
            }
            // larger archives, some forcing leaf directories: direct oracle only
            let big: Vec<(usize, bool)> = if quick { vec![(2000, false), (6000, false)] } else { vec![(2000, false), (6000, false), (20000, false), (50000, false)] };
            for (i, (n, b)) in big.iter().enumerate() {
                let (w, r) = fam(i);
                let seed = rng.next();
                if prop == "C01" {
                    c.push(format!("chk_roundtrip_seeded {w} {r} {seed:x} {n:x} {}", u8::from(*b)));
                } else {
                    c.push(format!("chk_valid_seeded {w} {seed:x} {n:x} {}", u8::from(*b)));
                }
            }
            let spills: Vec<(usize, Compression)> = if quick {
                vec![(4500, Compression::None), (9000, Compression::GZip)]
            } else {
                vec![(4500, Compression::None), (20000, Compression::None), (9000, Compression::GZip), (30000, Compression::GZip), (12000, Compression::Brotli), (12000, Compression::ZStd)]
            };
            for (i, (n, comp)) in spills.iter().enumerate() {
                let (w, r) = fam(i + 1);
                let seed = rng.next();
                if prop == "C01" {
                    c.push(format!("chk_roundtrip_spill {w} {r} {seed:x} {n:x} {}", comp_tok(*comp)));
                } else {
                    c.push(format!("chk_valid_spill {w} {seed:x} {n:x} {}", comp_tok(*comp)));
                }
                st.bump("archives_forcing_leaf_directories");
            }
            // very regular archives of sizes where a directory is 64 KiB .. 80 KiB uncompressed (17 000 tiles) and where a
            // codec shrinks it by more than a thousand to one (60 000 tiles)
            for (i, (n, comp)) in [(17_000usize, Compression::None), (60_000, Compression::ZStd), (60_000, Compression::Brotli), (40_000, Compression::GZip)].iter().enumerate() {
                let (w, r) = fam(i);
                if prop == "C01" {
                    c.push(format!("chk_roundtrip_regular {w} {r} {n:x} {}", comp_tok(*comp)));
                } else {
                    c.push(format!("chk_valid_regular {w} {n:x} {}", comp_tok(*comp)));
                }
                st.bump("archives_very_regular");
            }
            // so many sparse tiles that even the first root of leaf pointers exceeds the budget and the leaf size has to be
            // doubled inside a whole-archive write (5.2 million tiles, ids 2^39 apart; about 10 s and 1 GB)
            if prop == "C02" {
                c.push("chk_valid_sparse sync 4f5880 27".to_string());
                st.bump("archives_with_doubled_leaf_size");
            }
            // few tiles, widely spaced ids: a root directory that exceeds its budget with fewer than 2048 entries
            if prop == "C02" {
                for (k, (n, g)) in [(1900u64, 0x27u64), (2048, 0x30), (1500, 0x33), (1700, 0x32)].iter().enumerate() {
                    c.push(format!("chk_valid_sparse {} {n:x} {g:x}", if k % 2 == 0 { "sync" } else { "async" }));
                    st.bump("few_sparse_tiles_with_a_large_root");
                }
            }
            // tile counts that put an uncompressed root directory just below, inside and above (16257, 16384]
            for (i, n) in [4060usize, 4063, 4064, 4065, 4080, 4095, 4096, 4097].iter().enumerate() {
                let (w, r) = fam(i);
                let mut ops = vec!["c:none".to_string()];
                for t in 0..*n {
                    ops.push(format!("a:{:x}:{:02x}{:02x}", 2 * t, t % 251, t / 251));
                }
                if prop == "C01" {
                    c.push(format!("chk_roundtrip {w} {r} {}", ops.join(";")));
                } else {
                    c.push(format!("chk_valid {w} {}", ops.join(";")));
                }
                st.bump("archives_steered_to_root_window");
            }
            // archives edited after having been saved and reopened: reader-backed runs and shared contents with an
            // in-memory tile placed between them, removals inside runs, re-adds
            for k in 0..(if quick { 10 } else { 80 }) {
                let (w, r) = fam(k);
                let m = &w[..1];
                let base = rng.below(1 << 30);
                let mut ops = vec![format!("c:{}", comp_tok(ALL_COMP[k % 4]))];
                let blob = |rng: &mut Rng| hex_bytes(&rng.bytes_range(1, 40));
                let (ca, cb, cc) = (blob(rng), blob(rng), blob(rng));
                // a run of 5, a gap, two separated ids sharing the run's content, a second run
                for i in 0..5 {
                    ops.push(format!("a:{:x}:{ca}", base + i));
                }
                ops.push(format!("a:{:x}:{ca}", base + 9));
                ops.push(format!("a:{:x}:{cb}", base + 10));
                ops.push(format!("a:{:x}:{ca}", base + 11));
                for i in 20..24 {
                    ops.push(format!("a:{:x}:{cb}", base + i));
                }
                ops.push(format!("s:{m}:{m}"));
                match k % 5 {
                    0 => ops.push(format!("a:{:x}:{cc}", base + 2)),
                    1 => {
                        ops.push(format!("a:{:x}:{cc}", base + 10));
                        ops.push(format!("a:{:x}:{cc}", base + 21));
                    }
                    2 => ops.push(format!("r:{:x}", base + 3)),
                    3 => {
                        ops.push(format!("a:{:x}:{cc}", base + 6));
                        ops.push(format!("a:{:x}:{ca}", base + 5));
                    }
                    _ => {
                        ops.push(format!("a:{:x}:{cc}", base + 1));
                        ops.push(format!("s:{m}:{m}"));
                        ops.push(format!("a:{:x}:{ca}", base + 1));
                    }
                }
                if prop == "C01" {
                    c.push(format!("chk_roundtrip {w} {r} {}", ops.join(";")));
                } else {
                    c.push(format!("chk_valid {w} {}", ops.join(";")));
                }
                st.bump("archives_edited_after_reopen");
            }
            // archives of another writer, opened and written again (C02: the output is judged; C01: read back through the API)
            if prop == "C02" {
                for k in 0..(if quick { 12 } else { 100 }) {
                    let mut o = foreign_opts(rng, k + 3, true);
                    o.n = o.n.min(150);
                    o.unordered = k % 4 != 3;
                    o.empty_meta = false;
                    let f = gen_foreign(rng, &o, st);
                    c.push(format!("chk_valid_foreign {} {}", fam(k).0, hex_bytes(&f.bytes)));
                    st.bump("foreign_archives_rewritten");
                }
            }
            // metadata far larger than any internal buffer (sync and async, every codec)
            for (k, size) in [70_000usize, 150_000, 400_000].iter().enumerate() {
                for (j, comp) in ALL_COMP.iter().enumerate() {
                    if quick && (k + j) % 2 == 0 && *size != 400_000 {
                        continue;
                    }
                    let (w, r) = fam(k + j);
                    let mut text = String::with_capacity(*size);
                    while text.len() < *size {
                        text.push(char::from(b'a' + (rng.next() % 26) as u8));
                    }
                    let json = format!("{{\"k\":\"{text}\"}}");
                    let ops = format!("c:{};m:{};a:3:0102", comp_tok(*comp), hex_bytes(json.as_bytes()));
                    if prop == "C01" {
                        c.push(format!("chk_roundtrip {w} {r} {ops}"));
                    } else {
                        c.push(format!("chk_valid {w} {ops}"));
                    }
                    st.bump("archives_with_large_metadata");
                }
            }
            // one model-compared archive with leaf directories (None codec keeps it small enough)
            {
                let ops = seeded_spill_ops(rng.next(), 4300, Compression::None);
                let m = if quick { "sync" } else { "async" };
                c.push(format!("hist {m} {ops};s:{}:{};l;n;q", &m[..1], &m[..1]));
            }
        }
        "C03" => {
            let n = if quick { 48 } else { 400 };
            for k in 0..n {
                let o = foreign_opts(rng, k, quick);
                let f = gen_foreign(rng, &o, st);
                let (_, r) = fam(k);
                let hexb = hex_bytes(&f.bytes);
                c.push(format!("chk_foreign {r} {hexb}"));
                // the Coq formalisation of the specification's lookup vs the independent reader, on present, absent and
                // boundary ids
                {
                    let h = &f.header;
                    let mut probe: Vec<u64> = f.run_bounds.iter().take(6).flat_map(|b| [b.saturating_sub(1), *b, b + 1]).collect();
                    probe.extend(f.leaf_first_ids.iter().take(3));
                    probe.extend([0, 1, u64::MAX, rng.spread(62)]);
                    if f.bytes.len() < 60_000 {
                        for id in probe {
                            c.push(format!("slook {} {:x} {:x} {:x} {id:x} {hexb}", ["unknown", "none", "gzip", "brotli", "zstd"][h.icomp as usize % 5], h.root_off, h.root_len, h.leaf_off));
                        }
                    }
                }
                if o.n <= 400 {
                    let keys: Vec<u64> = f.tiles.keys().copied().collect();
                    let mut h = vec![format!("o:{}:u_u:{hexb}", &r[..1])];
                    h.extend(probe_ops(&keys, rng, 40));
                    c.push(format!("hist {r} {}", h.join(";")));
                }
            }
            // directories mixing leaf pointers and tile entries, pointers zero-coded after tile entries, nested mixing
            for (name, bytes, pts, valid) in odd_archives(rng) {
                if !valid {
                    continue;
                }
                let hexb = hex_bytes(&bytes);
                c.push(format!("chk_foreign sync {hexb}"));
                c.push(format!("chk_foreign async {hexb}"));
                let probes: Vec<String> = pts.iter().flat_map(|p| [format!("g:{p:x}"), format!("g:{:x}", p + 1)]).collect();
                c.push(format!("hist sync o:s:u_u:{hexb};l;n;{}", probes.join(";")));
                st.bump(&format!("odd_{}", name.replace(' ', "_")));
            }
            // single directories with more entries than any plausible internal cap (2^16 and beyond)
            for (k, n) in [65_536usize, 65_537, 70_001].iter().enumerate() {
                if quick && k == 0 {
                    continue;
                }
                let o = ForeignOpts { n: *n, depth: 0, icomp: 1 + (k % 4) as u8, permute: false, unordered: false, empty_meta: true, merge_runs: false, unknown_counts: false, multi_frame: false };
                let f = gen_foreign(rng, &o, st);
                if f.header.entries as usize >= *n {
                    c.push(format!("chk_foreign {} {}", fam(k).1, hex_bytes(&f.bytes)));
                    st.bump("foreign_directories_over_65536_entries");
                }
            }
            for name in ["stamen_toner(raster)CC-BY+ODbL_z3.pmtiles", "protomaps(vector)ODbL_firenze.pmtiles"] {
                c.push(format!("chk_fixture {}", hex_bytes(name.as_bytes())));
            }
            if !quick {
                c.push(format!("chk_fixture {}", hex_bytes(b"protomaps_vector_planet_odbl_z10_without_data.pmtiles")));
            }
            // single-directory lookup
            for i in 0..(if quick { 150 } else { 2000 }) {
                let es = valid_entries(rng, 1 + (i % 30), true, i % 3 == 0, st);
                let et = entries_tok(&es);
                let e = es[rng.below(es.len() as u64) as usize];
                for id in [e.tile_id, e.tile_id + u64::from(e.run_length), (e.tile_id + u64::from(e.run_length)).saturating_sub(1), e.tile_id.saturating_sub(1), rng.spread(62)] {
                    c.push(format!("dir_find {et} {id:x}"));
                    c.push(format!("chk_dir_find {et} {id:x}"));
                }
            }
        }
        "C04" | "C10" => {
            // exhaustive short histories over 3 adjacent ids x 3 colliding contents
            let ids = [7u64, 8, 9];
            let contents = ["aa", "aa00", "ab"];
            for mode in ["sync", "async"] {
                let m = &mode[..1];
                let mut alphabet: Vec<String> = Vec::new();
                for id in ids {
                    for ct in contents {
                        alphabet.push(format!("a:{id:x}:{ct}"));
                    }
                    alphabet.push(format!("r:{id:x}"));
                }
                alphabet.push(format!("s:{m}:{m}"));
                let len = if quick { 3 } else { 4 };
                let total = alphabet.len().pow(len as u32);
                for code in 0..total {
                    if mode == "async" && code % 3 != 0 && quick {
                        continue;
                    }
                    let mut cc = code;
                    let mut seq: Vec<String> = Vec::new();
                    for _ in 0..len {
                        seq.push(alphabet[cc % alphabet.len()].clone());
                        cc /= alphabet.len();
                    }
                    let ops = seq.join(";");
                    if prop == "C04" {
                        c.push(format!("chk_hist_map {mode} {ops}"));
                    } else {
                        c.push(format!("chk_dedup {mode} {ops}"));
                    }
                    if code % (if quick { 7 } else { 23 }) == 0 {
                        // the same history on the model, with probes after every step
                        let mut h: Vec<String> = Vec::new();
                        for o in &seq {
                            h.push(o.clone());
                            h.push("g:7;g:8;g:9;l;n;p".into());
                        }
                        c.push(format!("hist {mode} {}", h.join(";")));
                    }
                    st.bump("histories_exhaustive");
                }
            }
            // reader-backed and in-memory tiles sharing a content in every order; equal contents whose ids are exactly
            // k * 2^32 + run apart (distances must not be narrowed to 32 bits)
            for mode in ["sync", "async"] {
                let m = &mode[..1];
                let (ca, cb) = ("0a0b0c0d0e", "11121314");
                for (k, tail) in [
                    format!("a:3:{ca}"), format!("a:14:{ca}"), format!("a:3:{ca};a:14:{cb}"), format!("a:7:{cb};r:5"), format!("a:3:{cb};a:4:{cb}"),
                    format!("a:14:{ca};a:15:{ca}"), format!("r:9;a:9:{ca}"),
                ].iter().enumerate() {
                    let base = format!("a:5:{ca};a:9:{ca};a:a:{cb};a:c:{ca}");
                    let ops = format!("{base};s:{m}:{m};{tail}");
                    if prop == "C04" {
                        c.push(format!("chk_hist_map {mode} {ops};s:{m}:{m}"));
                    } else {
                        c.push(format!("chk_dedup {mode} {ops}"));
                    }
                    let _ = k;
                    st.bump("mixed_backed_and_memory_duplicates");
                }
                // lookups between the edits (read caches must not change what is stored), and for C04 lookups during
                // which the reader fails once
                for (k, tail) in [
                    format!("g:5;g:9;a:5:{cb};g:9;r:9;g:c"), format!("g:9;g:5;r:5;g:9;g:c"), format!("g:c;g:9;g:5;a:9:{cb};a:c:{cb};g:5"),
                    format!("g:5;a:6:{ca};g:6;g:5;r:5;g:6;r:9;r:c;g:6"),
                ].iter().enumerate() {
                    let base = format!("a:5:{ca};a:9:{ca};a:a:{cb};a:c:{ca}");
                    if prop == "C04" {
                        c.push(format!("chk_hist_map {mode} {base};s:{m}:{m};{tail};s:{m}:{m}"));
                        // three contents stored one after the other (ids 5, 6, 7): look one up, fail while fetching the third,
                        // then look up the one stored right behind the first; and the other orders
                        let base3 = format!("a:5:{ca};a:6:{cb};a:7:{};a:8:{ca}", "2122232425");
                        for (x, z, y) in [(5, 7, 6), (6, 5, 7), (5, 6, 7), (7, 5, 6), (8, 7, 6)] {
                            c.push(format!("chk_hist_map {mode} {base3};s:{m}:{m};G:{x};f:{z}:{:x};G:{y};G:{x};G:{z};l;n;s:{m}:{m}", k % 2));
                        }
                    } else {
                        c.push(format!("chk_dedup {mode} {base};s:{m}:{m};{tail}"));
                    }
                    st.bump("lookups_between_edits");
                }
                for (dist, run) in [(1u64 << 32, 3u64), (1 << 32, 1), (2 << 32, 2), ((1 << 32) - 1, 3), ((1 << 32) + 1, 3)] {
                    let mut ops: Vec<String> = (0..run).map(|i| format!("a:{:x}:{ca}", 10 + i)).collect();
                    ops.push(format!("a:{:x}:{ca}", 10 + dist + run));
                    ops.push(format!("a:{:x}:{ca}", 10 + dist + run + 1));
                    let ops = ops.join(";");
                    if prop == "C04" {
                        c.push(format!("chk_hist_map {mode} {ops};s:{m}:{m}"));
                    } else {
                        c.push(format!("chk_dedup {mode} {ops}"));
                    }
                    st.bump("equal_contents_2pow32_apart");
                }
            }
            if prop == "C10" {
                // ids 4..=8, every assignment of {reader-backed X, reader-backed Y, in-memory A, in-memory B, absent} with all
                // contents of one length: runs must form exactly between equal neighbours, whatever their origin
                let cont = ["58585858", "59595959", "41414141", "42424242"];
                for code in 0..5u32.pow(5) {
                    let pick: Vec<u32> = (0..5).map(|i| code / 5u32.pow(i) % 5).collect();
                    if pick.iter().filter(|p| **p < 4).count() < 3 {
                        continue;
                    }
                    let mode = if code % 2 == 0 { "sync" } else { "async" };
                    let m = &mode[..1];
                    let backed: Vec<String> = pick.iter().enumerate().filter(|(_, p)| **p < 2).map(|(i, p)| format!("a:{:x}:{}", 4 + i, cont[*p as usize])).collect();
                    let mem: Vec<String> = pick.iter().enumerate().filter(|(_, p)| **p == 2 || **p == 3).map(|(i, p)| format!("a:{:x}:{}", 4 + i, cont[*p as usize])).collect();
                    if backed.is_empty() || mem.is_empty() {
                        continue;
                    }
                    c.push(format!("chk_dedup {mode} c:none;{};s:{m}:{m};{}", backed.join(";"), mem.join(";")));
                }
                st.bump("equal_length_neighbours_of_mixed_origin_exhaustive");
                // histories that move between threads: equal contents added on different threads, an opened archive
                // edited and saved on another thread
                for (k, mode) in ["sync", "async", "sync", "async"].iter().enumerate() {
                    let m = &mode[..1];
                    let (ca, cb) = ("0a0b0c0d0e", "11121314");
                    let ops = match k {
                        0 => format!("a:5:{ca};a:9:{cb};t;a:6:{ca};a:a:{cb};t;a:7:{ca}"),
                        1 => format!("a:5:{ca};a:6:{cb};s:{m}:{m};t;a:7:{ca};a:8:{cb};g:5;t;r:5;a:5:{cb}"),
                        2 => format!("a:5:{ca};t;a:5:{ca};a:6:{ca};t;r:6;t;a:9:{ca}"),
                        _ => format!("a:1:{ca};a:2:{ca};a:3:{ca};t;s:{m}:{m};t;a:4:{ca};a:0:{ca}"),
                    };
                    c.push(format!("chk_dedup {mode} {ops}"));
                    st.bump("histories_across_threads");
                }
                // runs longer than 2^16 tiles (one entry, whatever its length), in memory and reader-backed
                for (k, n) in [65_535u64, 65_536, 65_537, 70_000, 140_000].iter().enumerate() {
                    c.push(format!("chk_dedup_run {} {n:x}", if k % 2 == 0 { "sync" } else { "async" }));
                    st.bump("runs_beyond_2pow16");
                }
            }
            // one content larger than 1 MiB held by a reader-backed and by an in-memory tile
            if prop == "C10" {
                for (k, n) in [1_048_576usize, 1_048_577].iter().enumerate() {
                    let mode = if k % 2 == 0 { "sync" } else { "async" };
                    let m = &mode[..1];
                    let big = hex_bytes(&rng.bytes(*n));
                    c.push(format!("chk_dedup {mode} c:none;a:5:{big};a:7:0102;s:{m}:{m};a:9:{big}"));
                    st.bump("contents_over_1mib_backed_and_in_memory");
                }
            }
            // histories large enough to need leaf directories, with entry counts that do not divide evenly
            if prop == "C04" {
                for (k, n) in [5001usize, 4321, 8193].iter().enumerate() {
                    if quick && k == 2 {
                        continue;
                    }
                    let mode = if k % 2 == 0 { "sync" } else { "async" };
                    let m = &mode[..1];
                    let ops = seeded_spill_ops(rng.next(), *n, Compression::None);
                    c.push(format!("chk_hist_map {mode} {ops};s:{m}:{m}"));
                    st.bump("histories_with_leaf_directories");
                }
            }
            // very regular archives under zstd / brotli (directories that shrink to a fraction of a byte per entry)
            if prop == "C04" {
                for (k, comp) in [Compression::ZStd, Compression::Brotli].iter().enumerate() {
                    let mode = if k % 2 == 0 { "sync" } else { "async" };
                    let m = &mode[..1];
                    // (written once here; the history starts by opening it)
                    let bytes = crate::p_io::write_plain(mode, &regular_ops(20_000, *comp)).expect("write");
                    c.push(format!("chk_hist_map {mode} o:{m}:u_u:{};l;n;g:64;g:4e83;r:65;a:5:0102;s:{m}:{m};l;g:66", hex_bytes(&bytes)));
                    st.bump("histories_very_regular_archives");
                }
            }
            // histories that start from a range-filtered open of an archive with leaf directories, the range touching
            // the first / last id of a leaf
            if prop == "C04" {
                // (consecutive ids, so that the id just before a leaf's first id exists; and a sparse archive)
                for bytes in [crate::p_io::write_plain("sync", &regular_ops(9000, Compression::None)).expect("write"), crate::p_io::write_plain("sync", &seeded_spill_ops(rng.next(), 9000, Compression::None)).expect("write")] {
                if let Ok(v) = spec::parse(&bytes, false) {
                    let firsts: Vec<u64> = v.root.iter().filter(|e| e.run == 0).map(|e| e.id).collect();
                    let ids: Vec<u64> = v.tile_entries.iter().map(|e| e.id + u64::from(e.run) - 1).collect();
                    if firsts.len() >= 2 {
                        let f1 = firsts[1];
                        let last0 = ids.iter().copied().filter(|i| *i < f1).max().unwrap_or(0);
                        let hexb = hex_bytes(&bytes);
                        for (k, rg) in [
                            (Bound::Included(last0), Bound::Unbounded), (Bound::Excluded(last0), Bound::Unbounded), (Bound::Included(f1), Bound::Unbounded),
                            (Bound::Unbounded, Bound::Included(last0)), (Bound::Unbounded, Bound::Excluded(f1)), (Bound::Unbounded, Bound::Included(f1)),
                            (Bound::Included(last0), Bound::Included(f1)), (Bound::Included(last0.saturating_sub(1)), Bound::Excluded(last0)),
                        ].iter().enumerate() {
                            let (mode, r) = if k % 2 == 0 { ("sync", "s") } else { ("async", "a") };
                            c.push(format!("chk_hist_map {mode} o:{r}:{}:{hexb};l;n;g:{last0:x};g:{f1:x};a:{:x}:0102;r:{f1:x};l;s:{r}:{r}", range_tok(rg), last0 + 1));
                            st.bump("histories_from_partial_open_at_leaf_boundaries");
                        }
                    }
                }
                }
            }
            // long random histories, optionally starting from a foreign archive
            let nh = if quick { 24 } else { 200 };
            for k in 0..nh {
                let mode = if k % 2 == 0 { "sync" } else { "async" };
                let m = &mode[..1];
                let len = if k % 4 == 3 { if quick { 600 } else { 5000 } } else { rng.range(10, 120) as usize };
                // half of the histories use tiny alphabets so that re-adds of the same content, twins and
                // removals of twins occur many times
                let tiny = k % 2 == 1;
                let pool = content_pool(rng, if tiny { 2 } else { 6 }, false);
                let mut idpool = gen_ids(rng, if tiny { 3 } else { 10 }, k % 3 == 0);
                idpool.truncate(if tiny { 3 } else { 10 });
                let mut ops: Vec<String> = Vec::new();
                if k % 3 == 1 {
                    let o = foreign_opts(rng, k, true);
                    let f = gen_foreign(rng, &ForeignOpts { n: o.n.min(60), ..o }, st);
                    ops.push(format!("o:{m}:u_u:{}", hex_bytes(&f.bytes)));
                }
                for _ in 0..len {
                    let id = idpool[rng.below(idpool.len() as u64) as usize];
                    ops.push(match rng.below(12) {
                        0..=5 => format!("a:{id:x}:{}", hex_bytes(&pool[rng.below(pool.len() as u64) as usize])),
                        6..=8 => format!("r:{id:x}"),
                        9 => format!("g:{id:x}"),
                        10 if len < 200 || rng.chance(1, 20) => format!("s:{m}:{m}"),
                        _ => "l".to_string(),
                    });
                }
                let opss = ops.join(";");
                c.push(format!("{} {mode} {opss}", if prop == "C04" { "chk_hist_map" } else { "chk_dedup" }));
                if len <= 120 {
                    let mut h: Vec<String> = Vec::new();
                    for o in &ops {
                        h.push(o.clone());
                        if !o.starts_with("g") && o != "l" {
                            h.push("l;n;p".into());
                        }
                    }
                    c.push(format!("hist {mode} {}", h.join(";")));
                }
                st.bump("histories_random");
            }
            if prop == "C10" {
                // duplication patterns
                for k in 0..(if quick { 20 } else { 120 }) {
                    let mode = if k % 2 == 0 { "sync" } else { "async" };
                    let n = [5usize, 30, 200, 1000][k % 4];
                    let l = gen_logical(rng, n, false, st);
                    let mut ops = add_ops(&l, rng, true);
                    if k % 3 == 0 {
                        // duplicates between reader-backed and in-memory tiles
                        let m = &mode[..1];
                        let half = ops.split_off(ops.len() / 2);
                        ops.push(format!("s:{m}:{m}"));
                        ops.extend(half);
                    }
                    c.push(format!("chk_dedup {mode} {}", ops.join(";")));
                    if n <= 30 {
                        let m = &mode[..1];
                        c.push(format!("hist {mode} {};s:{m}:{m};l;n", ops.join(";")));
                    }
                    st.bump("duplication_patterns");
                }
                // non-deduplicated foreign source, rewritten
                for k in 0..(if quick { 8 } else { 40 }) {
                    let o = ForeignOpts { n: 30 + k, depth: (k % 3) as u32, icomp: 1 + (k % 4) as u8, permute: k % 2 == 0, unordered: true, empty_meta: false, merge_runs: k % 3 != 0, unknown_counts: k % 5 == 4, multi_frame: false };
                    let f = gen_foreign(rng, &o, st);
                    let mode = if k % 2 == 0 { "sync" } else { "async" };
                    let m = &mode[..1];
                    c.push(format!("chk_hist_then_dedup {mode} o:{m}:u_u:{}", hex_bytes(&f.bytes)));
                    c.push(format!("hist {mode} o:{m}:u_u:{};s:{m}:{m};l;n", hex_bytes(&f.bytes)));
                }
            }
        }
        "C06" => {
            let comps = ALL_COMP;
            let mut k = 0usize;
            // lists steered around the 16257-byte window
            for &comp in &comps {
                let targets: Vec<usize> = if quick { vec![16200, 16257, 16258, 16300, 16384, 16400] } else { vec![16000, 16200, 16250, 16256, 16257, 16258, 16259, 16300, 16383, 16384, 16385, 16500, 20000, 40000] };
                for &t in &targets {
                    let es = entries_for_size(rng, comp, t, st);
                    for delta in [-1i64, 0, 1] {
                        let n = (es.len() as i64 + delta).max(0) as usize;
                        if n > es.len() {
                            continue;
                        }
                        let mode = if k % 2 == 0 { "sync" } else { "async" };
                        let pos = [0u64, 127, 1, 5000][k % 4];
                        let ss = ["-", "1", "7", "1000", "fffff"][k % 5];
                        k += 1;
                        let et = entries_tok(&es[..n]);
                        c.push(format!("chk_spill {mode} {} {ss} {pos:x} {et}", comp_tok(comp)));
                        if comp == Compression::None || k % 4 == 0 {
                            let pre = hex_bytes(&vec![0xEEu8; pos as usize]);
                            c.push(format!("wdirs {mode} {} {ss} {pos:x} {pre} {et}", comp_tok(comp)));
                        }
                        st.bump("lists_near_window");
                    }
                }
            }
            // lists whose serialisation lands 1 .. 10 bytes above the limit, every codec, both API families, default
            // leaf size: the narrowest possible miss of the budget must still spill
            for &comp in &comps {
                for t in [16258usize, 16259, 16261, 16264, 16267] {
                    let es = entries_for_size(rng, comp, t, st);
                    for mode in ["sync", "async"] {
                        c.push(format!("chk_spill {mode} {} - 0 {}", comp_tok(comp), entries_tok(&es)));
                    }
                    st.bump("lists_just_over_the_limit");
                }
            }
            // a pointer root that would exceed 64 KiB at the first leaf sizes (sizes must not be narrowed to 16 bits)
            for (n, ss) in [(17_000usize, "1"), (33_000, "2")] {
                if quick && n > 17_000 {
                    continue;
                }
                c.push(format!("chk_spill sync none {ss} 0 {}", entries_tok(&tiny_entries(n))));
                c.push(format!("chk_spill async none {ss} 7f {}", entries_tok(&tiny_entries(n))));
                st.bump("lists_with_pointer_roots_over_64k");
            }
            // 4-bytes-per-entry lists: exact control over the plain size
            for n in [4063usize, 4064, 4065, 4095, 4096, 4097] {
                let es = tiny_entries(n);
                for (i, ss) in ["-", "1", "2", "4096", "4097"].iter().enumerate() {
                    let mode = if (n + i) % 2 == 0 { "sync" } else { "async" };
                    c.push(format!("chk_spill {mode} none {ss} 0 {}", entries_tok(&es)));
                    c.push(format!("wdirs {mode} none {ss} 0 - {}", entries_tok(&es)));
                }
            }
            // start sizes at the top of the usize range (arithmetic on the leaf size must not wrap)
            for (i, ss) in ["ffffffffffffffff", "fffffffffffffffe", "ffffffffffffefff", "8000000000000000", "8000000000000001", "100000000", "ffffffff", "7fffffffffffffff"].iter().enumerate() {
                let es = tiny_entries([4097usize, 4500, 9000][i % 3]);
                let mode = if i % 2 == 0 { "sync" } else { "async" };
                c.push(format!("chk_spill {mode} none {ss} 0 {}", entries_tok(&es)));
                c.push(format!("wdirs {mode} none {ss} 0 - {}", entries_tok(&es)));
                st.bump("lists_with_huge_start_size");
            }
            // small and empty lists, every start size
            for n in [0usize, 1, 2, 50] {
                let es = valid_entries(rng, n, false, true, st);
                for ss in ["-", "1", "3"] {
                    for &comp in &comps {
                        c.push(format!("chk_spill sync {} {ss} 0 {}", comp_tok(comp), entries_tok(&es)));
                        c.push(format!("wdirs async {} {ss} 0 - {}", comp_tok(comp), entries_tok(&es)));
                    }
                }
            }
            // large lists with small start sizes (several doublings)
            let bigs: Vec<usize> = if quick { vec![12000] } else { vec![12000, 40000, 100000] };
            for n in bigs {
                let es = valid_entries(rng, n, false, false, st);
                for (i, ss) in ["1", "2", "64", "-"].iter().enumerate() {
                    let comp = comps[i % 4];
                    let mode = if i % 2 == 0 { "sync" } else { "async" };
                    c.push(format!("chk_spill {mode} {} {ss} 0 {}", comp_tok(comp), entries_tok(&es)));
                    st.bump("lists_large_small_start");
                }
                if n <= 12000 {
                    c.push(format!("wdirs sync none 3 0 - {}", entries_tok(&es)));
                }
            }
            // whole archives with few but widely spaced tiles: the root exceeds its budget with fewer than 2048 entries
            for (k, (n, g)) in [(1900u64, 0x27u64), (2048, 0x30), (1500, 0x33), (1700, 0x32)].iter().enumerate() {
                c.push(format!("chk_valid_sparse {} {n:x} {g:x}", if k % 2 == 0 { "sync" } else { "async" }));
                st.bump("few_sparse_tiles_with_a_large_root");
            }
            // whole archives that spill
            for (i, comp) in [Compression::None, Compression::GZip].iter().enumerate() {
                let (w, _) = fam(i);
                c.push(format!("chk_valid_spill {w} {:x} {:x} {}", rng.next(), if *comp == Compression::None { 4500 } else { 9000 }, comp_tok(*comp)));
            }
        }
        "C11" => {
            // unusual directory structures: overlapping runs, directories mixing pointers and tile entries (the theorem
            // assumes no validity beyond 'ids under a pointer are >= the pointer's id')
            for (name, bytes, pts, _valid) in odd_archives(rng) {
                let hexb = hex_bytes(&bytes);
                let mut rgs: Vec<Range> = vec![(Bound::Unbounded, Bound::Unbounded)];
                for (i, a) in pts.iter().enumerate() {
                    rgs.push((Bound::Included(*a), Bound::Included(*a)));
                    rgs.push((Bound::Unbounded, Bound::Included(*a)));
                    rgs.push((Bound::Excluded(*a), Bound::Unbounded));
                    if let Some(b) = pts.get(i + 1) {
                        rgs.push((Bound::Included(*a), Bound::Excluded(*b)));
                        rgs.push((Bound::Excluded(*a), Bound::Included(*b)));
                        rgs.push((Bound::Included(*a + 1), Bound::Included(*b + 1)));
                    }
                }
                for (j, rg) in rgs.iter().enumerate() {
                    let mode = if j % 2 == 0 { "sync" } else { "async" };
                    c.push(format!("chk_partial {mode} {} {hexb}", range_tok(rg)));
                    if j % 4 == 0 {
                        c.push(format!("hist {mode} o:{}:{}:{hexb};l;n;g:{:x};g:0", &mode[..1], range_tok(rg), pts[0]));
                    }
                }
                st.bump(&format!("odd_{}", name.replace(' ', "_")));
            }
            let n = if quick { 20 } else { 120 };
            for k in 0..n {
                let mode = if k % 2 == 0 { "sync" } else { "async" };
                // foreign and library-written archives
                let (bytes, pts): (Vec<u8>, Vec<u64>) = if k % 3 == 2 {
                    let ops = if k % 6 == 2 { seeded_spill_ops(rng.next(), 4400, Compression::None) } else { seeded_ops(rng.next(), 10 + 30 * (k % 5), false, None) };
                    let b = run_to_bytes(mode, &ops).expect("write");
                    let v = spec::parse(&b, true).expect("own archive valid");
                    let mut pts: Vec<u64> = v.root.iter().filter(|e| e.run == 0).flat_map(|e| [e.id]).collect();
                    pts.extend(v.tile_entries.iter().take(4).flat_map(|e| [e.id, e.id + u64::from(e.run) - 1]));
                    (b, pts)
                } else {
                    let mut o = foreign_opts(rng, k + 3, true);
                    o.n = o.n.min(300);
                    let f = gen_foreign(rng, &o, st);
                    let mut pts = f.leaf_first_ids.clone();
                    pts.extend(f.run_bounds.iter().take(8));
                    (f.bytes, pts)
                };
                let mut pts = pts;
                pts.truncate(6);
                if pts.is_empty() {
                    pts.push(3);
                }
                let hexb = hex_bytes(&bytes);
                let small = bytes.len() < 20_000;
                for (j, rg) in ranges_for(rng, &pts).iter().enumerate() {
                    c.push(format!("chk_partial {mode} {} {hexb}", range_tok(rg)));
                    if small && j % 5 == 0 {
                        c.push(format!("hist {mode} o:{}:{}:{hexb};l;n;g:{:x};g:0", &mode[..1], range_tok(rg), pts[0]));
                    }
                    st.bump("ranges");
                }
            }
        }
        "C16" => {
            let n = if quick { 30 } else { 250 };
            for k in 0..n {
                let mode = if k % 2 == 0 { "sync" } else { "async" };
                let size = [0usize, 1, 4, 20, 100, 500][k % 6];
                let l = gen_logical(rng, size, false, st);
                let mut a = settings_ops(&l);
                a.extend(add_ops(&l, rng, false));
                let mut b = add_ops(&l, rng, true);
                b.extend(settings_ops(&l));
                let d = detour_ops(&l, rng, mode);
                let (sa, sb, sd) = (a.join(";"), b.join(";"), d.join(";"));
                c.push(format!("chk_canonical {mode} {sa} {sb}"));
                c.push(format!("chk_canonical {mode} {sa} {sd}"));
                {
                    // after a reopen: lookups, temporary twins of looked-up tiles, refused (empty) adds of existing and
                    // of absent ids - none of it changes the logical archive
                    let m = &mode[..1];
                    let mut extra: Vec<String> = vec![format!("s:{m}:{m}")];
                    for (n, (id, ct)) in l.tiles.iter().enumerate().take(5) {
                        let twin = BASE32 - 40 - n as u64;
                        let h = hex_bytes(ct);
                        match n % 3 {
                            0 => extra.extend([format!("g:{id:x}"), format!("a:{twin:x}:{h}"), format!("r:{twin:x}"), format!("g:{id:x}")]),
                            1 => extra.extend([format!("a:{id:x}:-"), format!("g:{id:x}"), format!("a:{twin:x}:-")]),
                            _ => extra.extend([format!("a:{twin:x}:{h}"), format!("g:{twin:x}"), format!("g:{id:x}"), format!("r:{twin:x}"), format!("a:{id:x}:-")]),
                        }
                    }
                    let cat = |parts: &[&str]| parts.iter().filter(|p| !p.is_empty()).copied().collect::<Vec<_>>().join(";");
                    c.push(format!("chk_canonical {mode} {sa} {}", cat(&[&sd, &extra.join(";")])));
                    c.push(format!("chk_canonical {mode} {sa} {}", cat(&[&sa, &extra[1..].join(";")])));
                }
                c.push(format!("chk_rewrite {mode} {sa}"));
                if size <= 100 {
                    let m = &mode[..1];
                    c.push(format!("hist {mode} {sd};w:{m}:0:-"));
                    c.push(format!("hist {mode} {sa};s:{m}:{m};w:{m}:0:-"));
                }
                if k % 5 == 0 {
                    c.push(format!("chk_xproc {mode} {sb}"));
                }
                st.bump("history_pairs");
            }
            // one large content referenced by a reader-backed tile and by a tile added after reopening, vs all in memory
            for (k, n) in [65_536usize, 65_537, 200_000].iter().enumerate() {
                let mode = if k % 2 == 0 { "sync" } else { "async" };
                let m = &mode[..1];
                let big = hex_bytes(&rng.bytes(*n));
                let a = format!("c:none;a:5:{big};a:9:{big};a:7:0102");
                let b = format!("c:none;a:5:{big};a:7:0102;s:{m}:{m};a:9:{big}");
                let b2 = format!("c:none;a:9:{big};s:{m}:{m};a:7:0102;a:5:{big}");
                c.push(format!("chk_canonical {mode} {a} {b}"));
                c.push(format!("chk_canonical {mode} {a} {b2}"));
                st.bump("large_content_backed_and_in_memory");
            }
            // reader-backed (foreign: unordered, separately stored duplicates, nested leaves) vs rebuilt in memory
            for k in 0..(if quick { 16 } else { 120 }) {
                let mut o = foreign_opts(rng, k + 2, true);
                o.n = o.n.min(120);
                o.unordered = k % 3 != 2;
                let f = gen_foreign(rng, &o, st);
                c.push(format!("chk_foreign_rewrite {} {}", if k % 2 == 0 { "sync" } else { "async" }, hex_bytes(&f.bytes)));
                st.bump("foreign_vs_rebuilt");
            }
            // contents beyond 4 MiB shared by a reader-backed and an in-memory tile; archives whose stream handle is shared
            for (k, size) in [(4usize << 20) + 1, 9_000_001].iter().enumerate() {
                if quick && k == 1 {
                    continue;
                }
                c.push(format!("chk_big_shared {} {size:x}", if k % 2 == 0 { "sync" } else { "async" }));
                st.bump("contents_over_4MiB_backed_and_in_memory");
            }
            for k in 0..4usize {
                let mode = if k % 2 == 0 { "sync" } else { "async" };
                let l = gen_logical(rng, 6 + 10 * k, false, st);
                let mut a = settings_ops(&l);
                a.extend(add_ops(&l, rng, false));
                c.push(format!("chk_shared_rewrite {mode} {}", a.join(";")));
                st.bump("shared_stream_handle_then_save");
            }
            // opened with a range filter (every kind of bound at tile ids and next to them), then saved
            for k in 0..(if quick { 6 } else { 40 }) {
                let mut o = foreign_opts(rng, k + 5, true);
                o.n = 8 + 5 * (k % 4);
                o.unordered = k % 2 == 0;
                let f = gen_foreign(rng, &o, st);
                let ids: Vec<u64> = f.tiles.keys().copied().collect();
                if ids.len() < 3 {
                    continue;
                }
                let (a, b) = (ids[ids.len() / 3], ids[2 * ids.len() / 3]);
                let hexb = hex_bytes(&f.bytes);
                for (j, rg) in [
                    (Bound::Excluded(a), Bound::Unbounded), (Bound::Included(a), Bound::Excluded(b)), (Bound::Excluded(a), Bound::Included(b)),
                    (Bound::Unbounded, Bound::Excluded(b)), (Bound::Excluded(a), Bound::Excluded(a + 1)), (Bound::Excluded(a.saturating_sub(1)), Bound::Included(a)),
                ].iter().enumerate() {
                    c.push(format!("chk_partial_rewrite {} {} {hexb}", if (k + j) % 2 == 0 { "sync" } else { "async" }, range_tok(rg)));
                    st.bump("partial_open_then_save");
                }
            }
            // the bytes do not depend on where in the stream they are written (root directory close to its limit,
            // and positions beyond 16 KiB)
            for (k, (n, p)) in [(4063usize, 64u64), (4064, 1), (4063, 20_000), (30, 16_384), (30, 70_000), (0, 16_300)].iter().enumerate() {
                let mut ops = vec!["c:none".to_string()];
                for t in 0..*n {
                    ops.push(format!("a:{:x}:{:02x}{:02x}", 2 * t, t % 251, t / 251));
                }
                c.push(format!("chk_startpos {} {p:x} - {}", if k % 2 == 0 { "sync" } else { "async" }, ops.join(";")));
                st.bump("position_independence");
            }
            // no state may survive between writes on one thread
            c.push(format!("chk_history_independent sync {}", seeded_spill_ops(rng.next(), 5000, Compression::None)));
            st.bump("write_then_large_write_then_write_again");
            // archives with leaf directories
            let ops = seeded_spill_ops(rng.next(), 4400, Compression::None);
            c.push(format!("chk_rewrite sync {ops}"));
            let ops2 = seeded_spill_ops(rng.next(), 9000, Compression::GZip);
            c.push(format!("chk_rewrite async {ops2}"));
        }
        _ => return None,
    }
    Some(c)
}

pub fn run_chk(toks: &[&str]) -> Option<String> {
    Some(match toks {
        ["chk_roundtrip", w, r, ops] => guard_chk(|| chk_roundtrip(w, r, ops)),
        ["chk_roundtrip_seeded", w, r, seed, n, big] => {
            let ops = seeded_ops(unhex_u64(seed), unhex_u64(n) as usize, *big == "1", None);
            guard_chk(|| chk_roundtrip(w, r, &ops))
        }
        ["chk_roundtrip_spill", w, r, seed, n, comp] => {
            let ops = seeded_spill_ops(unhex_u64(seed), unhex_u64(n) as usize, parse_comp(comp));
            guard_chk(|| chk_roundtrip(w, r, &ops))
        }
        ["chk_history_independent", mode, ops] => guard_chk(|| chk_history_independent(mode, ops)),
        ["chk_foreign_rewrite", mode, b] => {
            let b = unhex_bytes(b);
            guard_chk(|| chk_foreign_rewrite(mode, &b))
        }
        ["chk_roundtrip_regular", w, r, n, comp] => {
            let ops = regular_ops(unhex_u64(n) as usize, parse_comp(comp));
            guard_chk(|| chk_roundtrip(w, r, &ops))
        }
        ["chk_valid_sparse", w, n, gapbits] => {
            // n tiles whose ids are 2^gapbits apart (wide leaf pointers): built directly, the list is too long for a case line
            let (n, g) = (unhex_u64(n), unhex_u64(gapbits));
            guard_chk(|| {
                let mut st = fresh(*w == "async");
                match &mut st {
                    St::S(p) => p.internal_compression = Compression::None,
                    St::A(p) => p.internal_compression = Compression::None,
                }
                for i in 0..n {
                    let c = vec![(i % 251) as u8 + 1, (i / 251 % 251) as u8];
                    let r = match &mut st {
                        St::S(p) => p.add_tile(i << g, c),
                        St::A(p) => p.add_tile(i << g, c),
                    };
                    r.map_err(|e| format!("add_tile: {e}"))?;
                }
                let b = write_bytes(st)?;
                let v = spec::parse(&b, true).map_err(|e| format!("the written archive is not a valid PMTiles v3 file: {e}"))?;
                let addressed: u64 = v.tile_entries.iter().map(|e| u64::from(e.run)).sum();
                if addressed != n {
                    return Err(format!("the directories address {addressed} tiles, {n} were added"));
                }
                for i in [0, 1, n / 2, n - 1] {
                    if spec::lookup(&b, &v.header, i << g)?.is_none() {
                        return Err(format!("tile {} is not found by the specification's lookup", i << g));
                    }
                }
                Ok(())
            })
        }
        ["chk_valid_regular", w, n, comp] => {
            let ops = regular_ops(unhex_u64(n) as usize, parse_comp(comp));
            guard_chk(|| chk_valid(w, &ops))
        }
        ["chk_valid_foreign", mode, b] => {
            let b = unhex_bytes(b);
            guard_chk(|| chk_valid_foreign(mode, &b))
        }
        ["chk_valid", w, ops] => guard_chk(|| chk_valid(w, ops)),
        ["chk_valid_seeded", w, seed, n, big] => {
            let ops = seeded_ops(unhex_u64(seed), unhex_u64(n) as usize, *big == "1", None);
            guard_chk(|| chk_valid(w, &ops))
        }
        ["chk_valid_spill", w, seed, n, comp] => {
            let ops = seeded_spill_ops(unhex_u64(seed), unhex_u64(n) as usize, parse_comp(comp));
            guard_chk(|| {
                chk_valid(w, &ops)?;
                let (st, _) = build(w, &ops)?;
                let b = write_bytes(st)?;
                let v = spec::parse(&b, true)?;
                if v.depth == 0 {
                    return Err("harness: this archive was meant to need leaf directories".into());
                }
                Ok(())
            })
        }
        ["chk_many_contents", mode, n] => {
            let n = unhex_u64(n);
            guard_chk(|| chk_many_contents(mode, n))
        }
        ["chk_big_shared", mode, size] => {
            let size = unhex_u64(size) as usize;
            guard_chk(|| chk_big_shared(mode, size))
        }
        ["chk_shared_rewrite", mode, ops] => guard_chk(|| chk_shared_rewrite(mode, ops)),
        ["chk_partial_rewrite", mode, rg, b] => {
            let (rg, b) = (parse_range(rg), unhex_bytes(b));
            guard_chk(|| chk_partial_rewrite(mode, rg, &b))
        }
        ["chk_dedup", mode, ops] => guard_chk(|| chk_dedup(mode, ops)),
        ["chk_dedup_run", mode, n] => {
            let n = unhex_u64(n);
            guard_chk(|| {
                // n consecutive ids with one content and a different tile on either side: exactly three entries
                let mut st = fresh(*mode == "async");
                let mut want: BTreeMap<u64, Vec<u8>> = BTreeMap::new();
                let ops: Vec<String> = vec!["c:none".into(), "a:2:ee".into(), format!("a:{:x}:ee", 100 + n + 5)];
                let refs: Vec<&str> = ops.iter().map(String::as_str).collect();
                apply_ops(&mut st, &refs)?;
                want.insert(2, vec![0xee]);
                want.insert(100 + n + 5, vec![0xee]);
                for i in 0..n {
                    let r = match &mut st {
                        St::S(p) => p.add_tile(100 + i, vec![7u8, 7, 7]),
                        St::A(p) => p.add_tile(100 + i, vec![7u8, 7, 7]),
                    };
                    r.map_err(|e| format!("add_tile: {e}"))?;
                    want.insert(100 + i, vec![7u8, 7, 7]);
                }
                let b = write_bytes(st)?;
                chk_dedup_bytes(&b, &want)?;
                let v = spec::parse(&b, true)?;
                if v.tile_entries.len() != 3 {
                    return Err(format!("{} tile entries for a run of {n} equal tiles between two single tiles (3 expected)", v.tile_entries.len()));
                }
                // the same archive re-saved from its reader-backed form
                let st2 = reopen(*mode == "async", b.clone(), FULL)?;
                let b2 = write_bytes(st2)?;
                if b2 != b {
                    chk_dedup_bytes(&b2, &want)?;
                    return Err("re-saving the archive with the long run changes its bytes".into());
                }
                Ok(())
            })
        }
        ["chk_hist_then_dedup", mode, ops] => guard_chk(|| {
            // open a (non-deduplicated) foreign archive and write it again
            let f: Vec<&str> = ops.split(':').collect();
            let bytes = unhex_bytes(f[3]);
            let v = spec::parse(&bytes, false)?;
            let all = spec::all_tiles(&v, 1_000_000)?;
            let mut want = BTreeMap::new();
            for (id, ol) in all {
                want.insert(id, spec::tile_bytes(&bytes, &v.header, ol)?.to_vec());
            }
            let st = reopen(*mode == "async", bytes.clone(), FULL)?;
            let out = write_bytes(st)?;
            chk_dedup_bytes(&out, &want)
        }),
        ["chk_hist_map", mode, ops] => guard_chk(|| chk_hist_map(mode, ops)),
        ["chk_foreign", mode, b] => {
            let b = unhex_bytes(b);
            guard_chk(|| chk_foreign(mode, &b))
        }
        ["chk_fixture", name] => {
            let name = String::from_utf8(unhex_bytes(name)).unwrap();
            guard_chk(|| chk_fixture(&name))
        }
        ["chk_dir_find", es, id] => {
            let (es, id) = (parse_entries(es), unhex_u64(id));
            guard_chk(|| chk_dir_find(&es, id))
        }
        ["chk_partial", mode, rg, b] => {
            let (rg, b) = (parse_range(rg), unhex_bytes(b));
            guard_chk(|| chk_partial(mode, rg, &b))
        }
        ["chk_spill", mode, c, ss, pos, es] => {
            let start = if *ss == "-" { None } else { Some(unhex_u64(ss) as usize) };
            let (c, pos, es) = (parse_comp(c), unhex_u64(pos), parse_entries(es));
            guard_chk(|| chk_spill(mode, c, start, pos, &es))
        }
        ["chk_canonical", mode, a, b] => guard_chk(|| chk_canonical(mode, a, b)),
        ["chk_rewrite", mode, ops] => guard_chk(|| chk_rewrite(mode, ops)),
        ["chk_xproc", mode, ops] => guard_chk(|| chk_xproc(mode, ops)),
        _ => return None,
    })
}
