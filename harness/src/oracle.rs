//! Oracle server for the model driver: answers codec and JSON queries with the real libraries.
use crate::proto::*;
use futures::executor::block_on;
use futures::AsyncWriteExt;
use pmtiles2::{util, Compression};
use std::io::{BufRead, Read, Write};

pub fn comp_sync(c: Compression, data: &[u8]) -> std::io::Result<Vec<u8>> {
    util::compress_all(c, data)
}
pub fn comp_async(c: Compression, data: &[u8]) -> std::io::Result<Vec<u8>> {
    let mut out = futures::io::Cursor::new(Vec::<u8>::new());
    block_on(async {
        let mut w = util::compress_async(c, &mut out)?;
        w.write_all(data).await?;
        w.close().await?;
        Ok::<(), std::io::Error>(())
    })?;
    Ok(out.into_inner())
}
/// longest prefix the (sync) decoder delivers, and whether the stream ended cleanly
pub fn decomp_prefix(c: Compression, data: &[u8]) -> (Vec<u8>, bool) {
    let mut cur = std::io::Cursor::new(data);
    let mut out = Vec::new();
    let Ok(mut r) = util::decompress(c, &mut cur) else {
        return (out, false);
    };
    let mut buf = [0u8; 4096];
    loop {
        match r.read(&mut buf) {
            Ok(0) => return (out, true),
            Ok(n) => out.extend_from_slice(&buf[..n]),
            Err(ref e) if e.kind() == std::io::ErrorKind::Interrupted => {}
            Err(_) => return (out, false),
        }
    }
}
/// number of trailing bytes the synchronous encoder emits only when dropped (after flush() returned)
pub fn drop_tail(c: Compression, data: &[u8]) -> usize {
    struct Count(std::rc::Rc<std::cell::Cell<usize>>);
    impl Write for Count {
        fn write(&mut self, b: &[u8]) -> std::io::Result<usize> {
            self.0.set(self.0.get() + b.len());
            Ok(b.len())
        }
        fn flush(&mut self) -> std::io::Result<()> {
            Ok(())
        }
    }
    let n = std::rc::Rc::new(std::cell::Cell::new(0usize));
    let mut sink = Count(n.clone());
    let before_drop;
    {
        let Ok(mut w) = util::compress(c, &mut sink) else { return 0 };
        if w.write_all(data).is_err() || w.flush().is_err() {
            return 0;
        }
        before_drop = n.get();
    }
    n.get() - before_drop
}
/// "err" | "nonobj" | "obj <canonical hex>"
pub fn json_parse(b: &[u8]) -> String {
    match serde_json::from_slice::<serde_json::Value>(b) {
        Err(_) => "err".into(),
        Ok(serde_json::Value::Object(m)) => {
            format!("obj {}", hex_bytes(&serde_json::to_vec(&m).expect("json ser")))
        }
        Ok(_) => "nonobj".into(),
    }
}

pub fn answer(line: &str) -> String {
    let t: Vec<&str> = line.split(' ').collect();
    match t.as_slice() {
        ["comp", mode, c, b] => {
            let data = unhex_bytes(b);
            let c = parse_comp(c);
            let r = if *mode == "async" { comp_async(c, &data) } else { comp_sync(c, &data) };
            match r {
                Ok(v) => format!("ok {}", hex_bytes(&v)),
                Err(_) => "err".into(),
            }
        }
        ["decomp", c, b] => {
            let (p, clean) = decomp_prefix(parse_comp(c), &unhex_bytes(b));
            format!("{} {}", hex_bytes(&p), u8::from(clean))
        }
        ["json", b] => json_parse(&unhex_bytes(b)),
        ["tail", c, b] => format!("{:x}", drop_tail(parse_comp(c), &unhex_bytes(b))),
        _ => "bad-query".into(),
    }
}

pub fn serve() {
    let stdin = std::io::stdin();
    let stdout = std::io::stdout();
    let mut out = stdout.lock();
    for line in stdin.lock().lines() {
        let Ok(line) = line else { break };
        let a = answer(line.trim_end());
        let _ = writeln!(out, "{a}");
        let _ = out.flush();
    }
}
