//! Generators of logical archives (tile maps + settings), of edit-history op strings, and of
//! foreign archives laid out by the independent spec-level writer.
use crate::gen_common::{Stats, BASE32};
use crate::ops2::{comp_code, f64_tok, ttype_code};
use crate::proto::*;
use crate::rng::Rng;
use crate::spec::{self, SEntry, SHeader};
use pmtiles2::{Compression, TileType};
use std::collections::BTreeMap;

#[derive(Clone, Debug)]
pub struct Logical {
    pub tiles: BTreeMap<u64, Vec<u8>>,
    pub meta: Vec<u8>, // canonical JSON object text
    pub icomp: Compression,
    pub tcomp: Compression,
    pub ttype: TileType,
    pub zooms: [u8; 3],
    pub coords: [f64; 6],
}

pub const ALL_TT: [TileType; 6] = [TileType::Unknown, TileType::Mvt, TileType::Png, TileType::Jpeg, TileType::WebP, TileType::AVIF];
pub const ALL_TC: [Compression; 5] = [Compression::Unknown, Compression::None, Compression::GZip, Compression::Brotli, Compression::ZStd];

pub fn gen_meta(rng: &mut Rng) -> Vec<u8> {
    let mut m = serde_json::Map::new();
    let n = rng.below(5);
    for i in 0..n {
        let k = match rng.below(6) {
            0 => "name".to_string(),
            1 => "vector_layers".to_string(),
            2 => format!("k{}", rng.below(100)),
            3 => ["ü\"\\\n", "\u{1f600}", "k\u{20000}\u{10ffff}", "\u{7f}\u{80}\u{7ff}\u{800}\u{ffff}\u{10000}"][rng.below(4) as usize].to_string(),
            4 => ["", "json", "JSON", "tilejson"][rng.below(4) as usize].to_string(),
            _ => format!("attribution{i}"),
        };
        let v = match rng.below(10) {
            0 => serde_json::Value::Null,
            1 => serde_json::Value::Bool(rng.chance(1, 2)),
            2 => serde_json::json!(rng.next() as i64),
            3 => serde_json::json!(rng.next()),
            4 => serde_json::json!([1, "a", null, {"z": 1, "a": [ ]}]),
            5 => serde_json::json!({"b": {"c": [true, false]}, "a": "x"}),
            6 => serde_json::json!(0.5),
            7 => serde_json::json!(format!("\u{1f30d} {} \u{2a6df}\u{e9}\u{0}\u{1f}", rng.below(1000))),
            8 => serde_json::json!("{\"vector_layers\":[],\"name\":\"x\"}"),
            _ => serde_json::json!(format!("s{}", rng.below(1000))),
        };
        m.insert(k, v);
    }
    serde_json::to_vec(&m).unwrap()
}

/// degrees: multiples of 1e-7, half-step ties and their neighbours, ordinary values, extremes
pub fn gen_coord(rng: &mut Rng) -> f64 {
    if rng.below(14) == 0 {
        // half-step ties next to zero and their neighbours a few ulps away (products of about 0.5, 1.5, 2.5)
        let i = rng.below(7) as i64 - 3;
        let t = (i as f64 + 0.5) / 1e7;
        let b = t.to_bits();
        return f64::from_bits(b.wrapping_add(rng.below(9)).wrapping_sub(4));
    }
    if rng.below(12) == 0 {
        // around and below the resolution of 1e-7 degrees
        let v = [4.9e-8, 5e-8, 5.1e-8, 6e-8, 9.9e-8, 1e-7, 1.4e-7, 1.5e-7, 1.6e-7, 1e-9, 1e-300][rng.below(11) as usize];
        return if rng.chance(1, 2) { v } else { -v };
    }
    match rng.below(10) {
        0 => 0.0,
        1 => [180.0, -180.0, 90.0, -90.0, 85.0511287, -85.0511287][rng.below(6) as usize],
        2 => (rng.next() as i32 as f64) / 1e7,
        3 => {
            // around a half-step tie
            let i = (rng.next() % 3_600_000_000) as i64 - 1_800_000_000;
            let t = (i as f64 + 0.5) / 1e7;
            let b = t.to_bits();
            f64::from_bits(match rng.below(3) {
                0 => b,
                1 => b.wrapping_add(1),
                _ => b.wrapping_sub(1),
            })
        }
        4 => -0.0,
        5 => (rng.below(3_600_000) as f64 - 1_800_000.0) / 10000.0,
        _ => (rng.next() as f64 / u64::MAX as f64) * 360.0 - 180.0,
    }
}

pub fn content_pool(rng: &mut Rng, n: usize, big: bool) -> Vec<Vec<u8>> {
    let mut pool: Vec<Vec<u8>> = Vec::new();
    for i in 0..n {
        let c = match rng.below(12) {
            0 => vec![rng.next() as u8],
            1 if !pool.is_empty() => {
                // near-duplicate: same length and prefix, last byte differs
                let mut c = pool[rng.below(pool.len() as u64) as usize].clone();
                let l = c.len();
                c[l - 1] = c[l - 1].wrapping_add(1);
                c
            }
            2 if !pool.is_empty() => {
                // same prefix, one byte longer
                let mut c = pool[rng.below(pool.len() as u64) as usize].clone();
                c.push(0);
                c
            }
            3 => vec![0u8; rng.range(1, 40) as usize],
            4 | 6 if big => rng.bytes_range(1000, 100_000),
            7 if big => rng.bytes_range(4097, 9000),
            5 => vec![(i % 256) as u8; rng.range(100, 400) as usize],
            _ => rng.bytes_range(1, 60),
        };
        // large contents get near-duplicate twins: same length, same prefix, one late byte differs
        if c.len() >= 1000 {
            let mut t = c.clone();
            let l = t.len();
            t[l - 1] ^= 0x55;
            pool.push(t);
            let mut t2 = c.clone();
            let at = (l / 2 + rng.below((l / 2) as u64) as usize).min(l - 1);
            t2[at] = t2[at].wrapping_add(1);
            pool.push(t2);
        }
        pool.push(c);
    }
    pool
}

/// ids in clusters (consecutive runs) spread over the valid domain
pub fn gen_ids(rng: &mut Rng, n: usize, wide: bool) -> Vec<u64> {
    let mut ids: Vec<u64> = Vec::with_capacity(n);
    let mut cur: u64 = if rng.chance(1, 3) { 0 } else { rng.spread(if wide { 40 } else { 20 }) };
    while ids.len() < n {
        let run = match rng.below(6) {
            0 => rng.range(2, 30),
            1 => rng.range(30, 300),
            _ => 1,
        };
        for _ in 0..run {
            if ids.len() < n && cur < BASE32 {
                ids.push(cur);
                cur += 1;
            }
        }
        cur = cur.saturating_add(match rng.below(8) {
            0..=3 => 0,
            4..=5 => rng.range(1, 4),
            6 => rng.spread(16),
            _ if wide => rng.spread(58),
            _ => rng.spread(24),
        });
        if cur >= BASE32 {
            break;
        }
    }
    if wide && !ids.contains(&(BASE32 - 1)) && rng.chance(1, 2) {
        ids.push(BASE32 - 1);
    }
    ids
}

pub fn gen_logical(rng: &mut Rng, n: usize, big: bool, st: &mut Stats) -> Logical {
    let pool = content_pool(rng, (n / 3).max(1).min(400), big);
    let ids = gen_ids(rng, n, true);
    let mut tiles = BTreeMap::new();
    let mut prev: Option<Vec<u8>> = None;
    for id in ids {
        let c = match (&prev, rng.below(10)) {
            (Some(p), 0..=3) => {
                st.bump("tile_same_as_previous");
                p.clone()
            }
            _ => pool[rng.below(pool.len() as u64) as usize].clone(),
        };
        prev = Some(c.clone());
        tiles.insert(id, c);
    }
    let zs = [rng.below(32) as u8, rng.below(256) as u8, rng.below(32) as u8];
    Logical {
        tiles,
        meta: gen_meta(rng),
        icomp: ALL_COMP[rng.below(4) as usize],
        tcomp: ALL_TC[rng.below(5) as usize],
        ttype: ALL_TT[rng.below(6) as usize],
        zooms: zs,
        coords: [gen_coord(rng), gen_coord(rng), gen_coord(rng), gen_coord(rng), gen_coord(rng), gen_coord(rng)],
    }
}

pub fn settings_ops(l: &Logical) -> Vec<String> {
    vec![
        format!(
            "h:{:x}:{:x}:{:x}:{:x}:{:x}:{}:{}:{}:{}:{}:{}",
            ttype_code(l.ttype),
            comp_code(l.tcomp),
            l.zooms[0],
            l.zooms[1],
            l.zooms[2],
            f64_tok(l.coords[0]),
            f64_tok(l.coords[1]),
            f64_tok(l.coords[2]),
            f64_tok(l.coords[3]),
            f64_tok(l.coords[4]),
            f64_tok(l.coords[5])
        ),
        format!("c:{}", comp_tok(l.icomp)),
        format!("m:{}", hex_bytes(&l.meta)),
    ]
}
pub fn add_ops(l: &Logical, rng: &mut Rng, shuffle: bool) -> Vec<String> {
    let mut v: Vec<(&u64, &Vec<u8>)> = l.tiles.iter().collect();
    if shuffle {
        for i in (1..v.len()).rev() {
            let j = rng.below(i as u64 + 1) as usize;
            v.swap(i, j);
        }
    }
    if !shuffle {
        return v.into_iter().map(|(id, c)| format!("a:{id:x}:{}", hex_bytes(c))).collect();
    }
    // "built by any sequence of adds and removes": the same final content, reached through re-adds of the
    // same bytes, overwrites, remove-and-add-again and temporary tiles sharing a content
    let mut out = Vec::new();
    let mut pending_removes: Vec<u64> = Vec::new();
    let n = v.len();
    for (k, (id, c)) in v.iter().enumerate() {
        let add = format!("a:{:x}:{}", id, hex_bytes(c));
        let noise = if n <= 40 { rng.below(4) == 0 } else { rng.below(12) == 0 };
        if !noise {
            out.push(add);
            continue;
        }
        // a temporary id that is not part of the final content
        let mut tmp = **id ^ 0x5a5a;
        while l.tiles.contains_key(&tmp) || pending_removes.contains(&tmp) {
            tmp = tmp.wrapping_add(1) & ((1 << 62) - 1);
        }
        match rng.below(6) {
            0 => {
                out.push(add.clone());
                out.push(add);
            }
            1 => {
                let other = v[rng.below(n as u64) as usize].1;
                out.push(format!("a:{:x}:{}", id, hex_bytes(other)));
                out.push(add);
            }
            2 => {
                out.push(add.clone());
                out.push(format!("r:{:x}", id));
                out.push(add);
            }
            3 => {
                out.push(format!("a:{tmp:x}:{}", hex_bytes(c)));
                out.push(add);
                pending_removes.push(tmp);
            }
            4 => {
                out.push(add.clone());
                out.push(format!("a:{tmp:x}:{}", hex_bytes(c)));
                out.push(add);
                out.push(format!("r:{tmp:x}"));
            }
            _ => {
                out.push(format!("r:{:x}", id));
                out.push(add);
            }
        }
        if k % 5 == 0 {
            if let Some(t) = pending_removes.pop() {
                out.push(format!("r:{t:x}"));
            }
        }
    }
    for t in pending_removes {
        out.push(format!("r:{t:x}"));
    }
    out
}

// ---------------------------------------------------------------------------------------------
// foreign archives
// ---------------------------------------------------------------------------------------------
#[derive(Clone, Debug)]
pub struct Foreign {
    pub bytes: Vec<u8>,
    pub tiles: BTreeMap<u64, Vec<u8>>,
    pub header: SHeader,
    pub meta: Vec<u8>, // canonical object text ("{}" when the section is empty)
    pub depth: u32,
    pub leaf_first_ids: Vec<u64>,
    pub run_bounds: Vec<u64>,
    pub disjoint: bool,
}

pub struct ForeignOpts {
    pub n: usize,
    pub depth: u32,       // 0 = root only
    pub icomp: u8,        // 1..4
    pub permute: bool,    // section order / gaps
    pub unordered: bool,  // tile data not in id order, back references, separately stored duplicates
    pub empty_meta: bool,
    pub merge_runs: bool,
    pub unknown_counts: bool, // header counters left 0 ("unknown" per the specification)
    pub multi_frame: bool,    // zstd sections written as several concatenated frames
}

pub fn gen_foreign(rng: &mut Rng, o: &ForeignOpts, st: &mut Stats) -> Foreign {
    let pool = content_pool(rng, (o.n / 3).max(1).min(200), false);
    let ids = gen_ids(rng, o.n, true);
    let mut tiles: BTreeMap<u64, Vec<u8>> = BTreeMap::new();
    let mut prev: Option<usize> = None;
    let mut choice: Vec<(u64, usize)> = Vec::new();
    for id in ids {
        let k = match (prev, rng.below(10)) {
            (Some(p), 0..=3) => p,
            _ => rng.below(pool.len() as u64) as usize,
        };
        prev = Some(k);
        tiles.insert(id, pool[k].clone());
        choice.push((id, k));
    }
    // tile data layout
    let mut data: Vec<u8> = Vec::new();
    let mut place: BTreeMap<usize, (u64, u32)> = BTreeMap::new();
    let mut per_tile: Vec<(u64, u64, u32)> = Vec::new(); // id, off, len
    if o.unordered {
        // contents stored in pool order (not id order), with gaps, some stored twice
        if rng.chance(1, 2) {
            data.extend_from_slice(&rng.bytes_range(1, 9));
        }
        for (k, c) in pool.iter().enumerate() {
            place.insert(k, (data.len() as u64, c.len() as u32));
            data.extend_from_slice(c);
            if rng.chance(1, 4) {
                data.extend_from_slice(&rng.bytes_range(1, 5));
            }
        }
        for (id, k) in &choice {
            let (mut off, mut len) = place[k];
            if rng.chance(1, 10) {
                // a second stored copy of the same content
                off = data.len() as u64;
                data.extend_from_slice(&pool[*k]);
                st.bump("foreign_duplicate_copy");
            } else if len > 1 && rng.chance(1, 8) {
                // a prefix back-reference: same offset as another tile's content, shorter length
                len = 1 + rng.below(u64::from(len) - 1) as u32;
                tiles.insert(*id, pool[*k][..len as usize].to_vec());
                st.bump("foreign_prefix_reference");
            }
            per_tile.push((*id, off, len));
        }
    } else {
        for (id, k) in &choice {
            if !place.contains_key(k) {
                place.insert(*k, (data.len() as u64, pool[*k].len() as u32));
                data.extend_from_slice(&pool[*k]);
            }
            let (off, len) = place[k];
            per_tile.push((*id, off, len));
        }
    }
    // entries with optional run merging
    let mut es: Vec<SEntry> = Vec::new();
    for (id, off, len) in per_tile {
        if let Some(l) = es.last_mut() {
            if o.merge_runs && l.id + u64::from(l.run) == id && l.off == off && l.len == len && (o.unordered || true) && l.run < 1000 {
                if !(rng.chance(1, 7) && o.unordered) {
                    l.run += 1;
                    continue;
                }
            }
        }
        es.push(SEntry { id, off, len, run: 1 });
    }
    let run_bounds: Vec<u64> = es.iter().flat_map(|e| [e.id, e.id + u64::from(e.run) - 1]).collect();
    let n_entries = es.len() as u64;
    let mut distinct: Vec<u64> = es.iter().map(|e| e.off).collect();
    distinct.sort_unstable();
    distinct.dedup();
    let addressed: u64 = es.iter().map(|e| u64::from(e.run)).sum();
    // directory tree
    let mut leaf_sec: Vec<u8> = Vec::new();
    let mut leaf_first_ids = Vec::new();
    let mut level: Vec<SEntry> = es.clone();
    let mut depth = 0;
    for d in 0..o.depth {
        if level.is_empty() {
            break;
        }
        let mut ptrs: Vec<SEntry> = Vec::new();
        let mut i = 0;
        let mut blobs: Vec<(u64, Vec<u8>)> = Vec::new();
        while i < level.len() {
            let k = (rng.range(1, (level.len() as u64 / 3).max(2)) as usize).min(level.len() - i);
            let chunk = &level[i..i + k];
            blobs.push((chunk[0].id, if o.multi_frame { spec::codec_compress_frames(o.icomp, &spec::encode_dir(chunk)) } else { spec::codec_compress(o.icomp, &spec::encode_dir(chunk)) }));
            if d == 0 {
                leaf_first_ids.push(chunk[0].id);
            }
            i += k;
        }
        // place the blobs of this level in the leaf section (optionally reversed, with gaps)
        let mut order: Vec<usize> = (0..blobs.len()).collect();
        if o.permute && rng.chance(1, 2) {
            order.reverse();
        }
        let mut pos: Vec<(u64, u32)> = vec![(0, 0); blobs.len()];
        for idx in order {
            if o.permute && rng.chance(1, 3) {
                leaf_sec.extend_from_slice(&rng.bytes_range(1, 4));
            }
            pos[idx] = (leaf_sec.len() as u64, blobs[idx].1.len() as u32);
            leaf_sec.extend_from_slice(&blobs[idx].1);
        }
        for (j, (first, _)) in blobs.iter().enumerate() {
            ptrs.push(SEntry { id: *first, off: pos[j].0, len: pos[j].1, run: 0 });
        }
        level = ptrs;
        depth = d + 1;
    }
    let root = if o.multi_frame { spec::codec_compress_frames(o.icomp, &spec::encode_dir(&level)) } else { spec::codec_compress(o.icomp, &spec::encode_dir(&level)) };
    let meta_text = if o.empty_meta { b"{}".to_vec() } else { gen_meta(rng) };
    // other writers format their JSON differently: insignificant whitespace before, inside and after the object
    let meta_file_text: Vec<u8> = match rng.below(4) {
        0 => meta_text.clone(),
        1 => [b"\n ".as_slice(), &meta_text, b"\n"].concat(),
        2 => [b" \t\r\n".as_slice(), &meta_text, b"  "].concat(),
        _ => serde_json::from_slice::<serde_json::Value>(&meta_text).ok().and_then(|v| serde_json::to_vec_pretty(&v).ok()).map_or(meta_text.clone(), |mut p| {
            p.insert(0, b'\n');
            p.push(b'\n');
            p
        }),
    };
    let meta_sec = if o.empty_meta { Vec::new() } else if o.multi_frame { spec::codec_compress_frames(o.icomp, &meta_file_text) } else { spec::codec_compress(o.icomp, &meta_file_text) };
    // section placement
    let mut file = vec![0u8; 127];
    let gap = |rng: &mut Rng, file: &mut Vec<u8>, on: bool| {
        if on && rng.chance(1, 2) {
            let g = rng.bytes_range(1, 6);
            file.extend_from_slice(&g);
        }
    };
    let mut order: Vec<usize> = vec![0, 1, 2, 3]; // root, meta, leaf, data
    if o.permute {
        for i in (1..4).rev() {
            let j = rng.below(i as u64 + 1) as usize;
            order.swap(i, j);
        }
    }
    let secs: [&Vec<u8>; 4] = [&root, &meta_sec, &leaf_sec, &data];
    let mut offs = [0u64; 4];
    for &s in &order {
        gap(rng, &mut file, o.permute);
        offs[s] = file.len() as u64;
        file.extend_from_slice(secs[s]);
    }
    gap(rng, &mut file, o.permute);
    let clustered = !o.unordered;
    let h = SHeader {
        root_off: offs[0],
        root_len: root.len() as u64,
        meta_off: if meta_sec.is_empty() && rng.chance(1, 2) { 0 } else { offs[1] },
        meta_len: meta_sec.len() as u64,
        // (an empty section's offset means nothing: half of the archives without leaves record 0 there)
        leaf_off: if leaf_sec.is_empty() && rng.chance(1, 2) { 0 } else { offs[2] },
        leaf_len: leaf_sec.len() as u64,
        data_off: offs[3],
        data_len: data.len() as u64,
        addressed: if o.unknown_counts { 0 } else { addressed },
        entries: if o.unknown_counts { 0 } else { n_entries },
        contents: if o.unknown_counts { 0 } else { distinct.len() as u64 },
        clustered,
        icomp: o.icomp,
        tcomp: rng.below(5) as u8,
        ttype: rng.below(6) as u8,
        minz: rng.below(256) as u8,
        maxz: rng.below(256) as u8,
        // (a third of the archives: a centre of exactly 0/0 at zoom 0 inside bounds that do not contain it)
        coords: if rng.chance(1, 3) { [100_000_000, 200_000_000, 500_000_000, 800_000_000, 0, 0] } else { [rng.next() as i32, rng.next() as i32, 21, -21, i32::MIN, i32::MAX] },
        cz: rng.below(256) as u8,
    };
    let h = if h.coords[4] == 0 && h.coords[5] == 0 { SHeader { cz: 0, ..h } } else { h };
    file[0..127].copy_from_slice(&spec::encode_header(&h));
    st.bump(&format!("foreign_depth_{depth}"));
    if o.multi_frame && o.icomp != 1 {
        st.bump("foreign_encoder_variety");
    }
    if o.unknown_counts {
        st.bump("foreign_unknown_counts");
    }
    Foreign { bytes: file, tiles, header: h, meta: meta_text, depth, leaf_first_ids, run_bounds, disjoint: true }
}

pub fn foreign_opts(rng: &mut Rng, k: usize, quick: bool) -> ForeignOpts {
    let n = match k % 7 {
        0 => 0,
        1 => 1,
        2..=4 => rng.range(2, 40) as usize,
        5 => rng.range(40, 400) as usize,
        _ => rng.range(400, if quick { 1500 } else { 6000 }) as usize,
    };
    // depth and codec cycle jointly through all 16 combinations; the layout switches are independent
    ForeignOpts {
        n,
        depth: (k % 4) as u32,
        icomp: 1 + (k / 4 % 4) as u8,
        permute: rng.chance(1, 2),
        unordered: rng.chance(2, 5),
        empty_meta: rng.chance(1, 6),
        merge_runs: !rng.chance(1, 8),
        unknown_counts: rng.chance(1, 5),
        multi_frame: rng.chance(1, 3),
    }
}

// ---------------------------------------------------------------------------------------------
// hand-assembled archives with unusual but openable directory structures
// ---------------------------------------------------------------------------------------------
/// header + root + leaf section + data, back to back; metadata absent
pub fn raw_archive(icomp: u8, root: &[SEntry], leaf_sec: &[u8], data: &[u8]) -> Vec<u8> {
    let rootb = spec::codec_compress(icomp, &spec::encode_dir(root));
    let h = SHeader {
        root_off: 127, root_len: rootb.len() as u64, meta_off: 0, meta_len: 0,
        leaf_off: 127 + rootb.len() as u64, leaf_len: leaf_sec.len() as u64,
        data_off: 127 + (rootb.len() + leaf_sec.len()) as u64, data_len: data.len() as u64,
        addressed: 0, entries: 0, contents: 0, clustered: false, icomp, tcomp: 1, ttype: 1,
        minz: 0, maxz: 3, coords: [0; 6], cz: 0,
    };
    let mut f = spec::encode_header(&h);
    f.extend_from_slice(&rootb);
    f.extend_from_slice(leaf_sec);
    f.extend_from_slice(data);
    f
}
/// (name, bytes, ids worth probing, spec-valid?)
pub fn odd_archives(rng: &mut Rng) -> Vec<(&'static str, Vec<u8>, Vec<u64>, bool)> {
    let mut out = Vec::new();
    let data: Vec<u8> = rng.bytes(400);
    let t = |id: u64, run: u32, off: u64, len: u32| SEntry { id, off, len, run };
    for icomp in [1u8, 2, 4] {
        let leaf = |es: &[SEntry]| spec::codec_compress(icomp, &spec::encode_dir(es));
        // 1. overlapping runs in one directory (later entries re-address ids of earlier runs)
        out.push(("overlapping runs", raw_archive(icomp, &[t(0, 5, 0, 10), t(2, 1, 10, 7), t(3, 4, 17, 5), t(10, 2, 0, 10)], &[], &data), vec![0, 2, 3, 4, 6, 10], false));
        // 2. a directory mixing leaf pointers and tile entries
        let l1 = leaf(&[t(0, 1, 0, 4), t(1, 3, 4, 6), t(7, 1, 10, 2)]);
        let l2 = leaf(&[t(30, 2, 50, 5), t(40, 1, 55, 9)]);
        let mut ls = l1.clone();
        ls.extend_from_slice(&l2);
        let mixed = [SEntry { id: 0, off: 0, len: l1.len() as u32, run: 0 }, t(20, 1, 100, 8), t(21, 3, 108, 4), SEntry { id: 30, off: l1.len() as u64, len: l2.len() as u32, run: 0 }, t(50, 1, 120, 3)];
        out.push(("mixed directory", raw_archive(icomp, &mixed, &ls, &data), vec![0, 7, 20, 21, 23, 30, 40, 50], true));
        // 3. mixed directory whose later tile entry re-addresses an id inside an earlier leaf
        let l3 = leaf(&[t(0, 1, 0, 4), t(5, 1, 4, 6)]);
        let over = [SEntry { id: 0, off: 0, len: l3.len() as u32, run: 0 }, t(3, 4, 200, 8)];
        out.push(("mixed directory with overlap", raw_archive(icomp, &over, &l3, &data), vec![0, 3, 5, 6], false));
        // 4. a leaf pointer contiguous (in its own section) with the pointer before the tile entry that precedes it: its
        //    offset is zero-coded after an entry of the other kind
        let la = leaf(&[t(0, 1, 0, 4), t(1, 1, 4, 6)]);
        let lb = leaf(&[t(60, 2, 30, 5)]);
        let mut lsec = la.clone();
        lsec.extend_from_slice(&[0xEE, 0xEE, 0xEE]); // a gap: the second leaf does not follow the first one
        let lb_off = lsec.len() as u64;
        lsec.extend_from_slice(&lb);
        let tl: u32 = 5;
        let toff = lb_off - u64::from(tl); // the tile entry ends (in ITS section) exactly where the second leaf starts (in its own)
        let zc = [SEntry { id: 0, off: 0, len: la.len() as u32, run: 0 }, t(20, 1, toff, tl), SEntry { id: 60, off: lb_off, len: lb.len() as u32, run: 0 }];
        out.push(("zero-coded pointer after a tile entry", raw_archive(icomp, &zc, &lsec, &data), vec![0, 1, 20, 60, 61], true));
        // 5. the same mixing one level down
        let inner = leaf(&[t(100, 1, 0, 3)]);
        let mid_entries = [t(90, 2, 10, 4), SEntry { id: 100, off: 0, len: inner.len() as u32, run: 0 }, t(110, 1, 20, 6)];
        let mid = leaf(&mid_entries);
        let mut sec = inner.clone();
        let mid_off = sec.len() as u64;
        sec.extend_from_slice(&mid);
        let top = [t(5, 1, 30, 2), SEntry { id: 90, off: mid_off, len: mid.len() as u32, run: 0 }, t(200, 1, 40, 5)];
        out.push(("nested mixed directories", raw_archive(icomp, &top, &sec, &data), vec![5, 90, 91, 100, 110, 200], true));
        // 6. a leaf whose run reaches past the first id of the next leaf (the next leaf re-addresses part of it)
        let lx = leaf(&[t(0, 61, 0, 10), t(70, 1, 10, 7)]);
        let ly = leaf(&[t(30, 3, 50, 5), t(50, 4, 55, 9), t(80, 1, 64, 3)]);
        let mut lxy = lx.clone();
        lxy.extend_from_slice(&ly);
        let two = [SEntry { id: 0, off: 0, len: lx.len() as u32, run: 0 }, SEntry { id: 30, off: lx.len() as u64, len: ly.len() as u32, run: 0 }];
        out.push(("leaf run reaching past the next leaf", raw_archive(icomp, &two, &lxy, &data), vec![0, 29, 30, 33, 40, 50, 54, 60, 70, 80], false));
        // 7. a tile entry behind a leaf pointer re-addresses an id that lies inside that leaf (directory order decides)
        let lz = leaf(&[t(0, 8, 0, 10), t(9, 1, 10, 7)]);
        let re = [SEntry { id: 0, off: 0, len: lz.len() as u32, run: 0 }, t(5, 1, 100, 8), t(9, 2, 120, 4), t(40, 1, 130, 3)];
        out.push(("tile entry re-addressing an id of an earlier leaf", raw_archive(icomp, &re, &lz, &data), vec![0, 4, 5, 6, 9, 10, 40], false));
    }
    out
}
