//! Runs one protocol operation on the implementation and renders the result canonically.
use crate::proto::*;
use futures::executor::block_on;
use pmtiles2::{Compression, Directory, Entry};
use std::panic::{catch_unwind, AssertUnwindSafe};

pub fn silence_panics() {
    std::panic::set_hook(Box::new(|_| {}));
}

/// Ok(payload) | Err | panic  ->  "ok payload" | "err" | "crash"
pub fn guard<F: FnOnce() -> std::io::Result<String>>(f: F) -> String {
    match catch_unwind(AssertUnwindSafe(f)) {
        Ok(Ok(s)) => {
            if s.is_empty() {
                "ok".to_string()
            } else {
                format!("ok {s}")
            }
        }
        Ok(Err(_)) => "err".to_string(),
        Err(_) => "crash".to_string(),
    }
}

pub fn dir_from(es: Vec<Entry>) -> Directory {
    Directory::from(es)
}
pub fn dir_entries(d: &Directory) -> Vec<Entry> {
    d.into_iter().copied().collect()
}

pub fn dir_enc(asy: bool, c: Compression, es: &[Entry]) -> std::io::Result<Vec<u8>> {
    let d = dir_from(es.to_vec());
    if asy {
        let mut out = futures::io::Cursor::new(Vec::<u8>::new());
        block_on(d.to_async_writer(&mut out, c))?;
        Ok(out.into_inner())
    } else {
        let mut out = Vec::<u8>::new();
        d.to_writer(&mut out, c)?;
        Ok(out)
    }
}
pub fn dir_dec(asy: bool, c: Compression, b: &[u8]) -> std::io::Result<Vec<Entry>> {
    // through readers that serve a varying number of bytes per call (a reader may legally do so)
    if asy {
        let mut r = crate::streams::AFrag::new(b.to_vec());
        let d = block_on(Directory::from_async_reader(&mut r, b.len() as u64, c))?;
        Ok(dir_entries(&d))
    } else {
        let mut r = crate::streams::Frag::new(b.to_vec());
        let streamed = Directory::from_reader(&mut r, b.len() as u64, c);
        let direct = Directory::from_bytes(b, c);
        match (streamed, direct) {
            (Ok(d), Ok(direct)) => {
                if dir_entries(&direct) != dir_entries(&d) {
                    return Err(std::io::Error::new(std::io::ErrorKind::Other, "from_bytes and from_reader disagree"));
                }
                Ok(dir_entries(&d))
            }
            (Err(e), Err(_)) => Err(e),
            // one entry point accepts what the other refuses: hand out the accepted entries (a caller that expects a
            // refusal sees the acceptance; a caller that expects entries compares them)
            (Err(_), Ok(direct)) => Ok(dir_entries(&direct)),
            (Ok(_), Err(e)) => Err(std::io::Error::new(std::io::ErrorKind::Other, format!("from_bytes refuses what from_reader accepts: {e}"))),
        }
    }
}

pub fn is_async(s: &str) -> bool {
    match s {
        "sync" => false,
        "async" => true,
        _ => panic!("bad mode {s}"),
    }
}

pub fn run_op(toks: &[&str]) -> String {
    match toks {
        ["dir_enc", mode, c, es] => {
            let (asy, c, es) = (is_async(mode), parse_comp(c), parse_entries(es));
            guard(|| dir_enc(asy, c, &es).map(|b| hex_bytes(&b)))
        }
        ["dir_dec", mode, c, b] => {
            let (asy, c, b) = (is_async(mode), parse_comp(c), unhex_bytes(b));
            guard(|| dir_dec(asy, c, &b).map(|es| entries_tok(&es)))
        }
        ["dir_find", es, id] => {
            let (es, id) = (parse_entries(es), unhex_u64(id));
            guard(|| {
                let d = dir_from(es);
                Ok(match d.find_entry_for_tile_id(id) {
                    None => "none".to_string(),
                    Some(e) => entry_tok(e),
                })
            })
        }
        _ => crate::ops2::run_op2(toks),
    }
}

/// direct-oracle wrapper: "ok" | "FAIL reason"
pub fn guard_chk<F: FnOnce() -> Result<(), String>>(f: F) -> String {
    match catch_unwind(AssertUnwindSafe(f)) {
        Ok(Ok(())) => "ok".to_string(),
        Ok(Err(m)) => format!("FAIL {}", m.replace('\n', " ")),
        Err(_) => "FAIL panic".to_string(),
    }
}
