//! Stream-level properties: C08, C12, C13, C14, C15, C17, C18, C20.
use crate::gen_arch::*;
use crate::gen_common::*;
use crate::ops::guard_chk;
use crate::ops2::*;
use crate::proto::*;
use crate::rng::Rng;
use crate::spec;
use crate::streams::*;
use futures::executor::block_on;
use pmtiles2::{Compression, PMTiles};
use std::ops::Bound;
use std::panic::{catch_unwind, AssertUnwindSafe};

const FULL: Range = (Bound::Unbounded, Bound::Unbounded);

pub fn build_state(mode: &str, ops: &str) -> Result<St, String> {
    let mut st = fresh(mode == "async");
    if ops == "-" {
        return Ok(st);
    }
    let tmp = format!("{ops}");
    // reuse the history runner's op semantics through a tiny interpreter
    for o in tmp.split(';') {
        let f: Vec<&str> = o.split(':').collect();
        match f.as_slice() {
            ["a", id, d] => {
                let (id, d) = (unhex_u64(id), unhex_bytes(d));
                add_any(&mut st, id, d).map_err(|e| format!("add_tile: {e}"))?;
            }
            ["r", id] => match &mut st {
                St::S(p) => p.remove_tile(unhex_u64(id)),
                St::A(p) => p.remove_tile(unhex_u64(id)),
            },
            ["c", c] => match &mut st {
                St::S(p) => p.internal_compression = parse_comp(c),
                St::A(p) => p.internal_compression = parse_comp(c),
            },
            ["m", m] => {
                let v: serde_json::Value = serde_json::from_slice(&unhex_bytes(m)).map_err(|e| e.to_string())?;
                let serde_json::Value::Object(map) = v else { return Err("meta".into()) };
                match &mut st {
                    St::S(p) => p.meta_data = map,
                    St::A(p) => p.meta_data = map,
                }
            }
            ["h", tt, tc, minz, maxz, cz, f1, f2, f3, f4, f5, f6] => {
                macro_rules! set {
                    ($p:ident) => {{
                        $p.tile_type = ttype_of_code(unhex_u64(tt));
                        $p.tile_compression = comp_of_code(unhex_u64(tc));
                        $p.min_zoom = unhex_u64(minz) as u8;
                        $p.max_zoom = unhex_u64(maxz) as u8;
                        $p.center_zoom = unhex_u64(cz) as u8;
                        $p.min_longitude = parse_f64(f1);
                        $p.min_latitude = parse_f64(f2);
                        $p.max_longitude = parse_f64(f3);
                        $p.max_latitude = parse_f64(f4);
                        $p.center_longitude = parse_f64(f5);
                        $p.center_latitude = parse_f64(f6);
                    }};
                }
                match &mut st {
                    St::S(p) => set!(p),
                    St::A(p) => set!(p),
                }
            }
            ["s", _w, r] => {
                // save and reopen: the tiles become reader-backed
                let old = std::mem::replace(&mut st, fresh(*r == "a"));
                let (res_w, core) = write_to(old, Core::new(Vec::new(), 0));
                res(res_w, "to_writer (intermediate save)")?;
                let b = core.data;
                let asy = *r == "a";
                st = match catch_unwind(AssertUnwindSafe(|| open(asy, b, FULL))) {
                    Err(_) => return Err("reopening panicked".into()),
                    Ok(Err(e)) => return Err(format!("reopening failed: {e}")),
                    Ok(Ok(s)) => s,
                };
            }
            _ => return Err(format!("unsupported op {o}")),
        }
    }
    Ok(st)
}
fn res<T>(r: std::thread::Result<std::io::Result<T>>, what: &str) -> Result<T, String> {
    match r {
        Err(_) => Err(format!("{what} panicked")),
        Ok(Err(e)) => Err(format!("{what} failed: {e}")),
        Ok(Ok(v)) => Ok(v),
    }
}
pub fn write_plain(mode: &str, ops: &str) -> Result<Vec<u8>, String> {
    let st = build_state(mode, ops)?;
    let (r, core) = write_to(st, Core::new(Vec::new(), 0));
    res(r, "to_writer")?;
    Ok(core.data)
}

// ---------------------------------------------------------------------------------------------
// C18
// ---------------------------------------------------------------------------------------------
fn chk_startpos(mode: &str, p: u64, pre: &[u8], ops: &str) -> Result<(), String> {
    chk_startpos_with(mode, p, pre, &|| build_state(mode, ops))
}
/// n tiles whose ids are 2^gapbits apart, no internal compression (millions of them make the leaf size double
/// inside the write: the writer goes back to the root directory's place a second time)
fn sparse_state(mode: &str, n: u64, g: u64) -> Result<St, String> {
    let mut st = fresh(mode == "async");
    match &mut st {
        St::S(p) => p.internal_compression = Compression::None,
        St::A(p) => p.internal_compression = Compression::None,
    }
    for i in 0..n {
        let c = vec![(i % 251) as u8 + 1, (i / 251 % 251) as u8];
        let r = match &mut st {
            St::S(p) => p.add_tile(i << g, c),
            St::A(p) => p.add_tile(i << g, c),
        };
        r.map_err(|e| format!("add_tile: {e}"))?;
    }
    Ok(st)
}
fn chk_startpos_sparse(mode: &str, p: u64, n: u64, g: u64) -> Result<(), String> {
    let pre: Vec<u8> = (0..p + 777).map(|i| (i * 31 % 251) as u8 + 1).collect();
    chk_startpos_with(mode, p, &pre, &|| sparse_state(mode, n, g))
}
/// starting positions derived from the archive's own geometry (its length, its section offsets and lengths):
/// a writer that mixes absolute stream positions with archive-relative ones goes wrong exactly at such values
fn chk_startpos_rel(mode: &str, ops: &str) -> Result<(), String> {
    let reference = write_plain(mode, ops)?;
    let v = spec::parse(&reference, false).map_err(|e| format!("harness: {e}"))?;
    let h = &v.header;
    let len = reference.len() as u64;
    let mut ps: Vec<u64> = vec![
        len.saturating_sub(127), len, len + 127, len.saturating_sub(126), len.saturating_sub(128),
        h.root_off, h.root_len, h.meta_off, h.meta_len, h.leaf_off, h.leaf_len, h.data_off, h.data_len,
        h.root_off + h.root_len, h.data_off.saturating_sub(127), h.meta_off.saturating_sub(127),
        h.leaf_off.saturating_sub(127), h.data_len.saturating_sub(127), 2 * len,
    ];
    ps.sort_unstable();
    ps.dedup();
    for p in ps {
        if p == 0 || p > (1 << 22) {
            continue;
        }
        let pre: Vec<u8> = (0..p + len + 9).map(|i| (i * 7 % 253) as u8 + 1).collect();
        chk_startpos(mode, p, &pre, ops).map_err(|e| format!("at starting position {p} (archive of {len} bytes): {e}"))?;
    }
    Ok(())
}
/// an archive of another writer (tiles sharing a start offset, unordered data, nested leaves) opened and written at P:
/// what is read from P on must be the tiles the specification-level reader finds in the source
fn chk_startpos_foreign(mode: &str, p: u64, bytes: &[u8]) -> Result<(), String> {
    let src = spec::parse(bytes, false).map_err(|e| format!("harness: foreign archive invalid: {e}"))?;
    let want: std::collections::BTreeMap<u64, Vec<u8>> = spec::all_tiles(&src, 1_000_000)?
        .into_iter()
        .map(|(id, ol)| spec::tile_bytes(bytes, &src.header, ol).map(|b| (id, b.to_vec())))
        .collect::<Result<_, _>>()?;
    let st = match catch_unwind(AssertUnwindSafe(|| open(mode == "async", bytes.to_vec(), FULL))) {
        Ok(Ok(s)) => s,
        _ => return Err("harness: the foreign archive does not open".into()),
    };
    let pre: Vec<u8> = (0..p + 50).map(|i| (i * 13 % 251) as u8 + 1).collect();
    let mut sink = Core::new(pre.clone(), p);
    sink.sched = crate::streams::Schedule { chunks: vec![50, 3, 1 << 20, 7, 4096], pend: vec![] };
    let (r, core) = write_to(st, sink);
    res(r, "to_writer at a non-zero position")?;
    let img = core.data;
    if img[..p as usize] != pre[..p as usize] {
        return Err(format!("bytes before the starting position {p} were modified"));
    }
    let v = spec::parse(&img[p as usize..], true).map_err(|e| format!("bytes from position {p} on are not a valid archive: {e}"))?;
    let got = spec::all_tiles(&v, 1_000_000)?;
    if got.len() != want.len() {
        return Err(format!("the archive written at {p} addresses {} tiles, the source {}", got.len(), want.len()));
    }
    for (id, ol) in got {
        if want.get(&id).map(|c| &c[..]) != Some(spec::tile_bytes(&img[p as usize..], &v.header, ol)?) {
            return Err(format!("tile {id} of the archive written at position {p} has other bytes than in the source archive"));
        }
    }
    if core.pos != img.len() as u64 && core.pos != p + (v.header.data_off + v.header.data_len) {
        return Err(format!("stream left at position {} instead of the archive's end", core.pos));
    }
    Ok(())
}
fn chk_startpos_with(_mode: &str, p: u64, pre: &[u8], build: &dyn Fn() -> Result<St, String>) -> Result<(), String> {
    let reference = {
        let (r, core) = write_to(build()?, Core::new(Vec::new(), 0));
        res(r, "to_writer")?;
        core.data
    };
    let st = build()?;
    // a sink that accepts a varying number of bytes per write call (a writer may legally do so)
    let mut sink = Core::new(pre.to_vec(), p);
    sink.sched = crate::streams::Schedule { chunks: vec![50, 3, 1 << 20, 7, 4096], pend: vec![] };
    let (r, core) = write_to(st, sink);
    res(r, "to_writer at a non-zero position")?;
    let img = core.data;
    let keep = (p as usize).min(pre.len());
    if img[..keep] != pre[..keep] {
        return Err(format!("bytes before the starting position {p} were modified"));
    }
    if (p as usize) > pre.len() && img[pre.len()..p as usize].iter().any(|b| *b != 0) {
        return Err("the gap before the starting position is not zero-filled".into());
    }
    let end = p as usize + reference.len();
    if img.len() < end {
        return Err(format!("stream has {} bytes, the archive written at {p} should reach {end}", img.len()));
    }
    if img[p as usize..end] != reference[..] {
        let pos = img[p as usize..end].iter().zip(reference.iter()).position(|(a, b)| a != b).unwrap_or(0);
        return Err(format!("the archive written at position {p} differs from the one written at 0 (first difference at archive offset {pos})"));
    }
    if img.len() > end && (pre.len() < img.len() || img[end..] != pre[end..]) {
        return Err("bytes after the archive's end were modified".into());
    }
    if core.pos != end as u64 {
        return Err(format!("stream left at position {} instead of the archive's end {end}", core.pos));
    }
    // reading the bytes from P on yields the archive
    let v = spec::parse(&img[p as usize..], false).map_err(|e| format!("bytes from position {p} on are not a valid archive: {e}"))?;
    let a = spec::parse(&reference, false).map_err(|e| format!("harness: {e}"))?;
    if v.header != a.header || v.tile_entries != a.tile_entries {
        return Err("archive read from position P differs from the reference".into());
    }
    for asy in [false, true] {
        res(catch_unwind(AssertUnwindSafe(|| open(asy, img[p as usize..].to_vec(), FULL).map(|_| ()))), "opening the bytes from P on")?;
    }
    Ok(())
}

// ---------------------------------------------------------------------------------------------
// C17
// ---------------------------------------------------------------------------------------------
fn chk_torn(mode: &str, ops: &str) -> Result<(), String> {
    // saves of the same archive on this thread that fail at one of their last operations (the header write, the final
    // seek) come first: whatever such a save leaves behind must not put a finished header into the next save early
    {
        let (r, c0) = write_to(build_state(mode, ops)?, Core::new(Vec::new(), 0));
        res(r, "to_writer")?;
        for back in [1usize, 2, 3] {
            let mut failing = Core::new(Vec::new(), 0);
            failing.fail_from = Some(c0.ops.saturating_sub(back));
            let _ = write_to(build_state(mode, ops)?, failing);
        }
    }
    let st = build_state(mode, ops)?;
    let mut core = Core::new(Vec::new(), 0);
    core.keep_data = true;
    let (r, core) = write_to(st, core);
    res(r, "to_writer")?;
    let full = core.data.clone();
    // replay every prefix of the recorded write/seek operations
    let mut img: Vec<u8> = Vec::new();
    let mut wi = 0usize;
    let events: Vec<&Ev> = core.log.iter().filter(|e| matches!(e, Ev::Write { .. } | Ev::Seek { .. })).collect();
    let n = events.len();
    let try_open = |img: &Vec<u8>, k: usize| -> Result<(), String> {
        for asy in [false, true] {
            let r = catch_unwind(AssertUnwindSafe(|| open(asy, img.clone(), FULL).map(|_| ())));
            match r {
                Err(_) => return Err(format!("opening the output torn after {k} of {n} operations panicked")),
                Ok(Ok(())) => {
                    if *img != full {
                        return Err(format!("the output torn after {k} of {n} operations ({} of {} bytes) opens successfully", img.len(), full.len()));
                    }
                }
                Ok(Err(_)) => {
                    if *img == full {
                        return Err("the complete output does not open".into());
                    }
                }
            }
            if k % 16 != 0 && k + 3 < n {
                break; // the async reader is tried on a sample and near the end
            }
        }
        Ok(())
    };
    try_open(&img, 0)?;
    for (k, e) in events.iter().enumerate() {
        if let Ev::Write { pos, len } = e {
            let (p, l) = (*pos as usize, *len);
            if img.len() < p + l {
                img.resize(p + l, 0);
            }
            img[p..p + l].copy_from_slice(&core.wdata[wi]);
            wi += 1;
        }
        // cheap pre-filter: without the magic nothing opens; still exercise the reader regularly
        if img.len() >= 7 && &img[0..7] == b"PMTiles" || k % 8 == 0 || k + 4 >= n {
            try_open(&img, k + 1)?;
        }
    }
    if img != full {
        return Err("harness: replay of the log does not reproduce the stream".into());
    }
    Ok(())
}

/// More than 4 GiB of tile data: the stream keeps the bytes of small writes only and the extents of
/// large ones. The image torn after k operations is judged by its dense part (header, directories,
/// metadata: all the reader touches when opening) and the set of large extents written so far.
fn chk_torn_giant(mode: &str) -> Result<(), String> {
    const TILE: usize = 512 << 20;
    const N: usize = 9; // 4.5 GiB > u32::MAX bytes
    let mut st = fresh(mode == "async");
    for i in 0..N {
        let mut t = vec![(i as u8).wrapping_mul(37).wrapping_add(1); TILE];
        t[..8].copy_from_slice(&(i as u64).to_le_bytes());
        let r = match &mut st {
            St::S(p) => p.add_tile(5 + 2 * i as u64, t),
            St::A(p) => p.add_tile(5 + 2 * i as u64, t),
        };
        r.map_err(|e| format!("add_tile: {e}"))?;
    }
    let mut core = Core::new(Vec::new(), 0);
    core.keep_data = true;
    core.sparse_over = 1 << 20;
    let (r, core) = write_to(st, core);
    res(r, "to_writer of more than 4 GiB of tile data")?;
    let events: Vec<&Ev> = core.log.iter().filter(|e| matches!(e, Ev::Write { .. } | Ev::Seek { .. })).collect();
    let n = events.len();
    type Image = (Vec<u8>, Vec<(u64, usize)>);
    let replay = |upto: usize| -> Image {
        let mut img: Vec<u8> = Vec::new();
        let mut ext: Vec<(u64, usize)> = Vec::new();
        let mut wi = 0usize;
        for e in events.iter().take(upto) {
            if let Ev::Write { pos, len } = e {
                let d = &core.wdata[wi];
                wi += 1;
                if *len == 0 {
                    continue;
                }
                if d.is_empty() {
                    ext.push((*pos, *len));
                } else {
                    let p = *pos as usize;
                    if img.len() < p + len {
                        img.resize(p + len, 0);
                    }
                    img[p..p + len].copy_from_slice(d);
                }
            }
        }
        ext.sort_unstable();
        (img, ext)
    };
    let full = replay(n);
    let total: u64 = full.1.iter().map(|e| e.1 as u64).sum();
    if total <= u32::MAX as u64 {
        return Err(format!("harness: only {total} bytes of tile data were written in large writes"));
    }
    let opens = |img: &Vec<u8>| -> Result<bool, String> {
        match catch_unwind(AssertUnwindSafe(|| open(mode == "async", img.clone(), FULL).map(|_| ()))) {
            Err(_) => Err("opening a torn output panicked".into()),
            Ok(r) => Ok(r.is_ok()),
        }
    };
    if !opens(&full.0)? {
        // the reader wants more than header, directories and metadata: this sparse check cannot judge
        eprintln!("chk_torn_giant: the dense part of the complete output does not open; skipped");
        return Ok(());
    }
    for k in 0..n {
        let cur = replay(k);
        if cur != full && opens(&cur.0)? {
            let have: u64 = cur.1.iter().map(|e| e.1 as u64).sum();
            return Err(format!(
                "the output torn after {k} of {n} operations ({have} of {total} bytes of tile data present) opens successfully"
            ));
        }
    }
    Ok(())
}

// ---------------------------------------------------------------------------------------------
// C20
// ---------------------------------------------------------------------------------------------
fn within(ranges: &[(u64, u64)], allowed: &[(u64, u64)]) -> Option<(u64, u64)> {
    // the allowed windows may touch each other: compare against their union
    let mut al: Vec<(u64, u64)> = allowed.iter().copied().filter(|a| a.1 > a.0).collect();
    al.sort_unstable();
    let mut merged: Vec<(u64, u64)> = Vec::new();
    for (a, b) in al {
        if let Some(l) = merged.last_mut() {
            if a <= l.1 {
                l.1 = l.1.max(b);
                continue;
            }
        }
        merged.push((a, b));
    }
    let allowed = &merged[..];
    'outer: for r in ranges {
        for a in allowed {
            if r.0 >= a.0 && r.1 <= a.1 {
                continue 'outer;
            }
        }
        return Some(*r);
    }
    None
}
/// an asynchronous lookup that is given up while the stream answers Pending (a time-out, a select! that lost) must leave
/// nothing behind: later lookups of the same and of other tiles, and a save, see the same bytes as the synchronous API
fn chk_cancel(bytes: &[u8]) -> Result<(), String> {
    use std::future::Future;
    let v = spec::parse(bytes, false).map_err(|e| format!("harness: archive invalid: {e}"))?;
    let all = spec::all_tiles(&v, 100_000)?;
    let ids: Vec<u64> = all.keys().copied().collect();
    if ids.is_empty() {
        return Ok(());
    }
    let sh = AShared::new(Core::new(bytes.to_vec(), 0));
    let mut pm = res(catch_unwind(AssertUnwindSafe(|| block_on(PMTiles::from_async_reader(sh.clone())))), "open")?;
    // every operation of the stream answers Pending once before it is served, transfers come in pieces
    sh.0.lock().unwrap().sched = crate::streams::Schedule { chunks: vec![5, 1, 64], pend: vec![true] };
    let waker = futures::task::noop_waker();
    let mut cx = std::task::Context::from_waker(&waker);
    for (n, id) in ids.iter().step_by((ids.len() / 10).max(1)).enumerate() {
        for polls in 1..=4usize {
            {
                let mut fut = Box::pin(pm.get_tile_by_id_async(*id));
                for _ in 0..polls + n % 2 {
                    if fut.as_mut().poll(&mut cx).is_ready() {
                        break;
                    }
                }
                // dropped here, possibly in the middle of the tile's read
            }
            let other = ids[(n * 7 + polls) % ids.len()];
            for look in [*id, other, *id] {
                let got = res(catch_unwind(AssertUnwindSafe(|| block_on(pm.get_tile_by_id_async(look)))), "get_tile_by_id_async after a cancelled lookup")?;
                if got.as_deref() != Some(spec::tile_bytes(bytes, &v.header, all[&look])?) {
                    return Err(format!("after a lookup of tile {id} was given up after {polls} polls, the lookup of tile {look} returns other bytes than the archive holds"));
                }
            }
        }
    }
    // a save after cancelled lookups
    {
        let mut fut = Box::pin(pm.get_tile_by_id_async(ids[0]));
        let _ = fut.as_mut().poll(&mut cx);
        let _ = fut.as_mut().poll(&mut cx);
    }
    let mut out = futures::io::Cursor::new(Vec::new());
    res(catch_unwind(AssertUnwindSafe(|| block_on(pm.to_async_writer(&mut out)))), "to_async_writer after cancelled lookups")?;
    let out = out.into_inner();
    let w = spec::parse(&out, true).map_err(|e| format!("the archive saved after cancelled lookups is invalid: {e}"))?;
    for (id, ol) in spec::all_tiles(&w, 100_000)? {
        if all.get(&id).map(|o| spec::tile_bytes(bytes, &v.header, *o)) != Some(spec::tile_bytes(&out, &w.header, ol)) {
            return Err(format!("tile {id} of the archive saved after cancelled lookups has other bytes than the source"));
        }
    }
    Ok(())
}
/// an archive in which a later directory entry re-addresses an id of an earlier leaf: the directory order decides, and a
/// lookup reads exactly the range of the entry that comes last in that order
fn chk_order_lookup(mode: &str, bytes: &[u8], id: u64, off: u64, len: u64) -> Result<(), String> {
    let h = spec::decode_header(bytes).map_err(|e| format!("harness: {e}"))?;
    let want = (h.data_off + off, h.data_off + off + len);
    let rr = if mode == "sync" {
        let sh = Shared::new(Core::new(bytes.to_vec(), 0));
        let mut pm = res(catch_unwind(AssertUnwindSafe(|| PMTiles::from_reader(sh.clone()))), "open")?;
        sh.0.borrow_mut().log.clear();
        let got = res(catch_unwind(AssertUnwindSafe(|| pm.get_tile_by_id(id))), "get_tile_by_id")?;
        if got.as_deref() != bytes.get(want.0 as usize..want.1 as usize) {
            return Err(format!("lookup of tile {id} returns other bytes than the entry that addresses it last"));
        }
        let rr = read_ranges(&sh.0.borrow().log);
        rr
    } else {
        let sh = AShared::new(Core::new(bytes.to_vec(), 0));
        let mut pm = res(catch_unwind(AssertUnwindSafe(|| block_on(PMTiles::from_async_reader(sh.clone())))), "open")?;
        sh.0.lock().unwrap().log.clear();
        let got = res(catch_unwind(AssertUnwindSafe(|| block_on(pm.get_tile_by_id_async(id)))), "get_tile_by_id_async")?;
        if got.as_deref() != bytes.get(want.0 as usize..want.1 as usize) {
            return Err(format!("async lookup of tile {id} returns other bytes than the entry that addresses it last"));
        }
        let rr = read_ranges(&sh.0.lock().unwrap().log);
        rr
    };
    if rr != vec![want] {
        return Err(format!("lookup of tile {id} read {rr:?}; the entry that addresses it last in directory order covers [{}, {})", want.0, want.1));
    }
    Ok(())
}
/// an archive whose told directory lengths are too short (or otherwise wrong): whether or not it opens, nothing outside
/// the header, the metadata section, the root window and the leaf section it was told about is read
fn chk_windows_told(mode: &str, bytes: &[u8]) -> Result<(), String> {
    let h = spec::decode_header(bytes).map_err(|e| format!("harness: header invalid: {e}"))?;
    let mut allowed: Vec<(u64, u64)> = vec![(0, 127)];
    for (o, l) in [(h.meta_off, h.meta_len), (h.root_off, h.root_len), (h.leaf_off, h.leaf_len)] {
        if l > 0 {
            allowed.push((o, o.saturating_add(l)));
        }
    }
    let rr = if mode == "sync" {
        let sh = Shared::new(Core::new(bytes.to_vec(), 0));
        let _ = catch_unwind(AssertUnwindSafe(|| PMTiles::from_reader(sh.clone()).map(|_| ()))).map_err(|_| "opening panicked".to_string())?;
        let rr = read_ranges(&sh.0.borrow().log);
        rr
    } else {
        let sh = AShared::new(Core::new(bytes.to_vec(), 0));
        let _ = catch_unwind(AssertUnwindSafe(|| block_on(PMTiles::from_async_reader(sh.clone())).map(|_| ()))).map_err(|_| "opening panicked".to_string())?;
        let rr = read_ranges(&sh.0.lock().unwrap().log);
        rr
    };
    if let Some(bad) = within(&rr, &allowed) {
        return Err(format!("opening read bytes [{}, {}): outside the header, the metadata section, the root window [{}, {}) and the leaf section [{}, {}) it was told about", bad.0, bad.1, h.root_off, h.root_off + h.root_len, h.leaf_off, h.leaf_off.saturating_add(h.leaf_len)));
    }
    Ok(())
}
fn chk_lazy(mode: &str, rg: Range, bytes: &[u8]) -> Result<(), String> {
    let v = spec::parse(bytes, false).map_err(|e| format!("harness: archive invalid: {e}"))?;
    let h = &v.header;
    let mut allowed: Vec<(u64, u64)> = vec![(0, 127)];
    if h.meta_len > 0 {
        allowed.push((h.meta_off, h.meta_off + h.meta_len));
    }
    for (o, l) in &v.dir_windows {
        allowed.push((*o, *o + *l));
    }
    let data = (h.data_off, h.data_off + h.data_len);
    let all = spec::all_tiles(&v, 2_000_000)?;
    let in_range: Vec<(u64, (u64, u32))> = all.iter().filter(|(id, _)| std::ops::RangeBounds::contains(&rg, *id)).map(|(a, b)| (*a, *b)).collect();
    let step = (in_range.len() / 40).max(1);
    if mode == "sync" {
        let sh = Shared::new(Core::new(bytes.to_vec(), 0));
        let mut pm = res(catch_unwind(AssertUnwindSafe(|| PMTiles::from_reader_partially(sh.clone(), rg))), "from_reader_partially")?;
        let rr = read_ranges(&sh.0.borrow().log);
        if let Some(bad) = within(&rr, &allowed) {
            return Err(format!("opening read bytes [{}, {}) which lie in none of: header, metadata section, a directory it was told about", bad.0, bad.1));
        }
        if rr.iter().any(|r| r.0 < data.1 && data.0 < r.1 && data.1 > data.0) {
            return Err("opening read bytes of the tile-data section".into());
        }
        for (id, ol) in in_range.iter().step_by(step) {
            sh.0.borrow_mut().log.clear();
            let got = res(catch_unwind(AssertUnwindSafe(|| pm.get_tile_by_id(*id))), "get_tile_by_id")?;
            let want = (h.data_off + ol.0, h.data_off + ol.0 + u64::from(ol.1));
            let rr = read_ranges(&sh.0.borrow().log);
            if rr != vec![want] {
                return Err(format!("lookup of tile {id} read {rr:?}, its byte range is [{}, {})", want.0, want.1));
            }
            if got.as_deref() != Some(spec::tile_bytes(bytes, h, *ol)?) {
                return Err(format!("lookup of tile {id} returned other bytes"));
            }
        }
        // a transient fault during one lookup must not affect the next one (position bookkeeping, caches)
        let mut by_off: Vec<(u64, (u64, u32))> = in_range.clone();
        by_off.sort_by_key(|(_, ol)| ol.0);
        by_off.dedup_by_key(|(_, ol)| ol.0);
        if by_off.len() >= 3 {
            let (a, c, b) = (by_off[0], by_off[1], by_off[by_off.len() - 1]);
            for j in 0..4usize {
                let _ = res(catch_unwind(AssertUnwindSafe(|| pm.get_tile_by_id(a.0))), "get_tile_by_id")?;
                let k = sh.0.borrow().ops;
                sh.0.borrow_mut().fail_at = Some(k + j);
                let rb = catch_unwind(AssertUnwindSafe(|| pm.get_tile_by_id(b.0))).map_err(|_| "get_tile_by_id panicked under a transient fault".to_string())?;
                let faulted = sh.0.borrow().ops > k + j;
                sh.0.borrow_mut().fail_at = None;
                if faulted && rb.is_ok() {
                    return Err(format!("lookup of tile {} returned Ok although one of its stream operations failed", b.0));
                }
                sh.0.borrow_mut().log.clear();
                let got = res(catch_unwind(AssertUnwindSafe(|| pm.get_tile_by_id(c.0))), "get_tile_by_id")?;
                let want = (h.data_off + c.1 .0, h.data_off + c.1 .0 + u64::from(c.1 .1));
                let rr = read_ranges(&sh.0.borrow().log);
                if rr != vec![want] {
                    return Err(format!("after a failed lookup, the lookup of tile {} read {rr:?}, its byte range is [{}, {})", c.0, want.0, want.1));
                }
                if got.as_deref() != Some(spec::tile_bytes(bytes, h, c.1)?) {
                    return Err(format!("after a failed lookup, the lookup of tile {} returned other bytes", c.0));
                }
            }
        }
        // a single Interrupted answer in the middle of a tile that arrives in pieces: the lookup may fail or succeed, but a
        // success must carry the tile's bytes (a retry must not restart the buffer at the advanced position)
        if let Some((id, ol)) = in_range.iter().find(|(_, ol)| ol.1 >= 8) {
            for nth in [2usize, 3] {
                sh.0.borrow_mut().sched = crate::streams::Schedule { chunks: vec![3], pend: vec![] };
                let k = sh.0.borrow().ops;
                sh.0.borrow_mut().fail_at = Some(k + nth);
                sh.0.borrow_mut().fail_kind = usize::MAX;
                let r = catch_unwind(AssertUnwindSafe(|| pm.get_tile_by_id(*id))).map_err(|_| "get_tile_by_id panicked on an Interrupted answer".to_string())?;
                sh.0.borrow_mut().fail_at = None;
                sh.0.borrow_mut().fail_kind = 0;
                sh.0.borrow_mut().sched = crate::streams::Schedule::default();
                if let Ok(got) = r {
                    if got.as_deref() != Some(spec::tile_bytes(bytes, h, *ol)?) {
                        return Err(format!("lookup of tile {id} interrupted once in the middle returned other bytes"));
                    }
                }
            }
        }
        // an id that is not present reads nothing
        sh.0.borrow_mut().log.clear();
        let _ = pm.get_tile_by_id(u64::MAX - 3);
        if !read_ranges(&sh.0.borrow().log).is_empty() {
            return Err("lookup of an absent tile read from the stream".into());
        }
        // tiles of the archive that lie outside the range the archive was opened with: not there, nothing read
        for (id, _) in all.iter().filter(|(id, _)| !std::ops::RangeBounds::contains(&rg, *id)).step_by((all.len() / 6).max(1)).take(8) {
            sh.0.borrow_mut().log.clear();
            let got = res(catch_unwind(AssertUnwindSafe(|| pm.get_tile_by_id(*id))), "get_tile_by_id")?;
            if got.is_some() || !read_ranges(&sh.0.borrow().log).is_empty() {
                return Err(format!("tile {id} lies outside the range {} the archive was opened with, yet its lookup returned {} and read {:?}", range_tok(&rg), if got.is_some() { "bytes" } else { "nothing" }, read_ranges(&sh.0.borrow().log)));
            }
        }
        // lookups by coordinates read the same single range, whatever the zoom fields of the header say
        for (k, (id, ol)) in in_range.iter().step_by(step).enumerate().take(12) {
            let Ok((z, x, y)) = pmtiles2::util::zxy(*id) else { continue };
            if k % 2 == 0 {
                pm.min_zoom = 31;
                pm.max_zoom = 0;
            } else {
                pm.min_zoom = z.saturating_add(1);
                pm.max_zoom = z.saturating_sub(1);
            }
            sh.0.borrow_mut().log.clear();
            let got = res(catch_unwind(AssertUnwindSafe(|| pm.get_tile(x, y, z))), "get_tile")?;
            let want = (h.data_off + ol.0, h.data_off + ol.0 + u64::from(ol.1));
            let rr = read_ranges(&sh.0.borrow().log);
            if rr != vec![want] || got.as_deref() != Some(spec::tile_bytes(bytes, h, *ol)?) {
                return Err(format!("lookup of tile {id} by its coordinates ({z}/{x}/{y}) read {rr:?} and returned {}; its byte range is [{}, {})", if got.is_some() { "bytes" } else { "nothing" }, want.0, want.1));
            }
        }
    } else {
        let sh = AShared::new(Core::new(bytes.to_vec(), 0));
        let mut pm = res(catch_unwind(AssertUnwindSafe(|| block_on(PMTiles::from_async_reader_partially(sh.clone(), rg)))), "from_async_reader_partially")?;
        let rr = read_ranges(&sh.0.lock().unwrap().log);
        if let Some(bad) = within(&rr, &allowed) {
            return Err(format!("opening (async) read bytes [{}, {}) which lie in none of: header, metadata section, a directory it was told about", bad.0, bad.1));
        }
        if rr.iter().any(|r| r.0 < data.1 && data.0 < r.1 && data.1 > data.0) {
            return Err("opening (async) read bytes of the tile-data section".into());
        }
        for (id, ol) in in_range.iter().step_by(step) {
            sh.0.lock().unwrap().log.clear();
            let got = res(catch_unwind(AssertUnwindSafe(|| block_on(pm.get_tile_by_id_async(*id)))), "get_tile_by_id_async")?;
            let want = (h.data_off + ol.0, h.data_off + ol.0 + u64::from(ol.1));
            let rr = read_ranges(&sh.0.lock().unwrap().log);
            if rr != vec![want] {
                return Err(format!("async lookup of tile {id} read {rr:?}, its byte range is [{}, {})", want.0, want.1));
            }
            if got.as_deref() != Some(spec::tile_bytes(bytes, h, *ol)?) {
                return Err(format!("async lookup of tile {id} returned other bytes"));
            }
        }
        let mut by_off: Vec<(u64, (u64, u32))> = in_range.clone();
        by_off.sort_by_key(|(_, ol)| ol.0);
        by_off.dedup_by_key(|(_, ol)| ol.0);
        if by_off.len() >= 3 {
            let (a, c, b) = (by_off[0], by_off[1], by_off[by_off.len() - 1]);
            for j in 0..4usize {
                let _ = res(catch_unwind(AssertUnwindSafe(|| block_on(pm.get_tile_by_id_async(a.0)))), "get_tile_by_id_async")?;
                let k = sh.0.lock().unwrap().ops;
                sh.0.lock().unwrap().fail_at = Some(k + j);
                let rb = catch_unwind(AssertUnwindSafe(|| block_on(pm.get_tile_by_id_async(b.0)))).map_err(|_| "get_tile_by_id_async panicked under a transient fault".to_string())?;
                let faulted = sh.0.lock().unwrap().ops > k + j;
                sh.0.lock().unwrap().fail_at = None;
                if faulted && rb.is_ok() {
                    return Err(format!("async lookup of tile {} returned Ok although one of its stream operations failed", b.0));
                }
                sh.0.lock().unwrap().log.clear();
                let got = res(catch_unwind(AssertUnwindSafe(|| block_on(pm.get_tile_by_id_async(c.0)))), "get_tile_by_id_async")?;
                let want = (h.data_off + c.1 .0, h.data_off + c.1 .0 + u64::from(c.1 .1));
                let rr = read_ranges(&sh.0.lock().unwrap().log);
                if rr != vec![want] {
                    return Err(format!("after a failed async lookup, the lookup of tile {} read {rr:?}, its byte range is [{}, {})", c.0, want.0, want.1));
                }
                if got.as_deref() != Some(spec::tile_bytes(bytes, h, c.1)?) {
                    return Err(format!("after a failed async lookup, the lookup of tile {} returned other bytes", c.0));
                }
            }
        }
        // a single Interrupted answer in the middle of a tile that arrives in pieces: the lookup may fail or succeed, but a
        // success must carry the tile's bytes (a retry must not restart the buffer at the advanced position)
        if let Some((id, ol)) = in_range.iter().find(|(_, ol)| ol.1 >= 8) {
            for nth in [2usize, 3] {
                sh.0.lock().unwrap().sched = crate::streams::Schedule { chunks: vec![3], pend: vec![] };
                let k = sh.0.lock().unwrap().ops;
                sh.0.lock().unwrap().fail_at = Some(k + nth);
                sh.0.lock().unwrap().fail_kind = usize::MAX;
                let r = catch_unwind(AssertUnwindSafe(|| block_on(pm.get_tile_by_id_async(*id)))).map_err(|_| "get_tile_by_id_async panicked on an Interrupted answer".to_string())?;
                sh.0.lock().unwrap().fail_at = None;
                sh.0.lock().unwrap().fail_kind = 0;
                sh.0.lock().unwrap().sched = crate::streams::Schedule::default();
                if let Ok(got) = r {
                    if got.as_deref() != Some(spec::tile_bytes(bytes, h, *ol)?) {
                        return Err(format!("async lookup of tile {id} interrupted once in the middle returned other bytes"));
                    }
                }
            }
        }
        for (id, _) in all.iter().filter(|(id, _)| !std::ops::RangeBounds::contains(&rg, *id)).step_by((all.len() / 6).max(1)).take(8) {
            sh.0.lock().unwrap().log.clear();
            let got = res(catch_unwind(AssertUnwindSafe(|| block_on(pm.get_tile_by_id_async(*id)))), "get_tile_by_id_async")?;
            if got.is_some() || !read_ranges(&sh.0.lock().unwrap().log).is_empty() {
                return Err(format!("tile {id} lies outside the range {} the archive was opened with, yet its async lookup returned {} and read {:?}", range_tok(&rg), if got.is_some() { "bytes" } else { "nothing" }, read_ranges(&sh.0.lock().unwrap().log)));
            }
        }
        for (k, (id, ol)) in in_range.iter().step_by(step).enumerate().take(12) {
            let Ok((z, x, y)) = pmtiles2::util::zxy(*id) else { continue };
            if k % 2 == 0 {
                pm.min_zoom = 31;
                pm.max_zoom = 0;
            } else {
                pm.min_zoom = z.saturating_add(1);
                pm.max_zoom = z.saturating_sub(1);
            }
            sh.0.lock().unwrap().log.clear();
            let got = res(catch_unwind(AssertUnwindSafe(|| block_on(pm.get_tile_async(x, y, z)))), "get_tile_async")?;
            let want = (h.data_off + ol.0, h.data_off + ol.0 + u64::from(ol.1));
            let rr = read_ranges(&sh.0.lock().unwrap().log);
            if rr != vec![want] || got.as_deref() != Some(spec::tile_bytes(bytes, h, *ol)?) {
                return Err(format!("async lookup of tile {id} by its coordinates ({z}/{x}/{y}) read {rr:?} and returned {}; its byte range is [{}, {})", if got.is_some() { "bytes" } else { "nothing" }, want.0, want.1));
            }
        }
    }
    Ok(())
}

include!("p_io2.rs");
