#!/bin/sh
# builds model_driver from the extracted model; run from anywhere
set -e
cd "$(dirname "$0")"
cp ../coq/extracted/model.ml ../coq/extracted/model.mli .
ocamlfind ocamlopt -w -a -package unix -linkpkg model.mli model.ml driver.ml -o model_driver
