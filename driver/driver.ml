(* Line-oriented driver around the OCaml code extracted from the Coq model (Model).
   Reads one case per line from the file given as argv[1] ("-" = stdin), writes one result per line.
   Oracle calls (compression codecs, JSON) are answered by a child process: argv[2..] is its command. *)
open Model

(* ---------- conversions between protocol tokens and Coq datatypes ---------- *)
let rec pos_of_int (i : int) : positive =
  if i = 1 then XH else if i land 1 = 0 then XO (pos_of_int (i lsr 1)) else XI (pos_of_int (i lsr 1))
let n_of_int (i : int) : n = if i = 0 then N0 else Npos (pos_of_int i)
let byte_tab : n array = Array.init 256 n_of_int
let rec int_of_pos (p : positive) : int =
  match p with XH -> 1 | XO q -> 2 * int_of_pos q | XI q -> 2 * int_of_pos q + 1
let int_of_n (x : n) : int = match x with N0 -> 0 | Npos p -> int_of_pos p

let hexval c = match c with
  | '0'..'9' -> Char.code c - 48 | 'a'..'f' -> Char.code c - 87 | 'A'..'F' -> Char.code c - 55
  | _ -> failwith "bad hex"
let hexdig = "0123456789abcdef"

(* numbers: hex, most significant digit first, arbitrary size *)
let n_of_hex (s : string) : n =
  (* build the positive from the most significant bit down *)
  let acc = ref N0 in
  String.iter (fun c ->
    let v = hexval c in
    for k = 3 downto 0 do
      let bit = (v lsr k) land 1 in
      acc := (match !acc with
        | N0 -> if bit = 1 then Npos XH else N0
        | Npos p -> Npos (if bit = 1 then XI p else XO p))
    done) s;
  !acc
let hex_of_n (x : n) : string =
  match x with
  | N0 -> "0"
  | Npos p ->
    (* collect bits least significant first *)
    let bits = Buffer.create 64 in
    let rec go p = match p with
      | XH -> Buffer.add_char bits '1'
      | XO q -> Buffer.add_char bits '0'; go q
      | XI q -> Buffer.add_char bits '1'; go q in
    go p;
    let nb = Buffer.length bits in
    let nd = (nb + 3) / 4 in
    let out = Bytes.make nd '0' in
    for d = 0 to nd - 1 do
      let v = ref 0 in
      for k = 0 to 3 do
        let idx = 4 * d + k in
        if idx < nb && Buffer.nth bits idx = '1' then v := !v lor (1 lsl k)
      done;
      Bytes.set out (nd - 1 - d) hexdig.[!v]
    done;
    Bytes.to_string out

let bytes_of_hex (s : string) : n list =
  if s = "-" then [] else begin
    let len = String.length s / 2 in
    let r = ref [] in
    for i = len - 1 downto 0 do
      r := byte_tab.(hexval s.[2*i] * 16 + hexval s.[2*i+1]) :: !r
    done; !r end
let hex_of_bytes (b : n list) : string =
  if b = [] then "-" else begin
    let buf = Buffer.create 256 in
    List.iter (fun x -> let v = int_of_n x land 255 in
      Buffer.add_char buf hexdig.[v lsr 4]; Buffer.add_char buf hexdig.[v land 15]) b;
    Buffer.contents buf end

let split_on c s = if s = "-" then [] else String.split_on_char c s
let nums_of_tok s = List.map n_of_hex (split_on ',' s)
let tok_of_nums l = if l = [] then "-" else String.concat "," (List.map hex_of_n l)

let entry_of_tok s =
  match String.split_on_char '.' s with
  | [a;b;c;d] -> { e_id = n_of_hex a; e_off = n_of_hex b; e_len = n_of_hex c; e_run = n_of_hex d }
  | _ -> failwith "bad entry"
let entries_of_tok s = List.map entry_of_tok (split_on ',' s)
let tok_of_entry e = String.concat "." [hex_of_n e.e_id; hex_of_n e.e_off; hex_of_n e.e_len; hex_of_n e.e_run]
let tok_of_entries l = if l = [] then "-" else String.concat "," (List.map tok_of_entry l)

let out_str (f : 'a -> string) (o : 'a outcome) : string =
  match o with Ok a -> "ok " ^ f a | Err _ -> "err" | Crash _ -> "crash"

(* ---------- oracle child ---------- *)
let oracle_in = ref stdin
let oracle_out = ref stdout
let have_oracle = ref false
let oracle_queries = ref 0
let ask (q : string) : string =
  if not !have_oracle then failwith "no oracle" else begin
    incr oracle_queries;
    output_string !oracle_out q; output_char !oracle_out '\n'; flush !oracle_out;
    input_line !oracle_in end

(* ---------- the oracle context handed to the model ---------- *)
let comp_of_tok s = match s with
  | "unknown" -> CUnknown | "none" -> CNone | "gzip" -> CGzip | "brotli" -> CBrotli | "zstd" -> CZstd
  | _ -> failwith "bad compression"
let tok_of_comp c = match c with
  | CUnknown -> "unknown" | CNone -> "none" | CGzip -> "gzip" | CBrotli -> "brotli" | CZstd -> "zstd"
let is_async s = match s with "sync" -> false | "async" -> true | _ -> failwith "bad mode"

exception Oracle_miss of string
let intern : (string, int) Hashtbl.t = Hashtbl.create 1024
let cx : ctx = {
  comp = (fun asy c b ->
    let a = ask (Printf.sprintf "comp %s %s %s" (if asy then "async" else "sync") (tok_of_comp c) (hex_of_bytes b)) in
    match String.split_on_char ' ' a with
    | ["ok"; h] -> bytes_of_hex h
    | _ -> raise (Oracle_miss a));
  decomp = (fun c b ->
    let a = ask (Printf.sprintf "decomp %s %s" (tok_of_comp c) (hex_of_bytes b)) in
    match String.split_on_char ' ' a with
    | [h; fl] -> (bytes_of_hex h, fl = "1")
    | _ -> raise (Oracle_miss a));
  json_parse = (fun b ->
    let a = ask (Printf.sprintf "json %s" (hex_of_bytes b)) in
    match String.split_on_char ' ' a with
    | ["err"] -> Err EJson
    | ["nonobj"] -> Ok None
    | ["obj"; h] -> Ok (Some (bytes_of_hex h))
    | _ -> raise (Oracle_miss a));
  (* an injective "hash": the index of the content among all contents seen in this run *)
  hash = (fun b ->
    let k = hex_of_bytes b in
    match Hashtbl.find_opt intern k with
    | Some i -> n_of_int i
    | None -> let i = Hashtbl.length intern + 1 in Hashtbl.add intern k i; n_of_int i);
}

(* ---------- dispatch ---------- *)
let run_case (toks : string list) : string =
  match toks with
  | ["varint_enc"; v] -> "ok " ^ hex_of_bytes (write_varint (n_of_hex v))
  | ["varint_dec64"; b] ->
    out_str (fun (v, r) -> hex_of_n v ^ " " ^ hex_of_bytes r) (read_varint64 (bytes_of_hex b))
  | ["varint_dec32"; b] ->
    out_str (fun (v, r) -> hex_of_n v ^ " " ^ hex_of_bytes r) (read_varint32 (bytes_of_hex b))
  | ["dir_dec_plain"; b] -> out_str tok_of_entries (decode_dir_plain (bytes_of_hex b))
  | ["dir_enc_plain"; es] -> out_str hex_of_bytes (encode_dir_plain (entries_of_tok es))
  | ["dir_spec_enc"; es] -> "ok " ^ hex_of_bytes (spec_encode_dir (entries_of_tok es))
  | ["dir_valid"; es] -> "ok " ^ (if valid_dirb (entries_of_tok es) then "1" else "0")
  | ["dir_dec"; _mode; c; b] -> out_str tok_of_entries (decode_dir cx (comp_of_tok c) (bytes_of_hex b))
  | ["dir_enc"; mode; c; es] ->
    out_str hex_of_bytes (encode_dir cx (is_async mode) (comp_of_tok c) (entries_of_tok es))
  | ["dir_find"; es; id] ->
    out_str (fun o -> match o with None -> "none" | Some e -> tok_of_entry e)
      (find_entry (entries_of_tok es) (n_of_hex id))
  | op :: _ -> "unsupported " ^ op
  | [] -> "unsupported"

let () =
  let ic = if Array.length Sys.argv > 1 && Sys.argv.(1) <> "-" then open_in Sys.argv.(1) else stdin in
  if Array.length Sys.argv > 2 then begin
    let cmd = String.concat " " (Array.to_list (Array.sub Sys.argv 2 (Array.length Sys.argv - 2))) in
    let (i, o) = Unix.open_process cmd in
    oracle_in := i; oracle_out := o; have_oracle := true
  end;
  (try
    while true do
      let line = input_line ic in
      if String.length line > 0 && line.[0] <> '#' then begin
        match String.split_on_char ' ' line with
        | id :: toks ->
          let res = (try run_case toks with
            | Stack_overflow -> "driver-stack-overflow"
            | Oracle_miss m -> "driver-oracle-miss " ^ m
            | Failure m -> "driver-failure " ^ m
            | Not_found -> "driver-failure not_found") in
          print_string id; print_char ' '; print_string res; print_newline ()
        | [] -> ()
      end
    done
  with End_of_file -> ());
  flush stdout
