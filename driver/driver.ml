(* Line-oriented driver around the OCaml code extracted from the Coq model (Model).
   Reads one case per line from the file given as argv[1] ("-" = stdin), writes one result per line.
   Oracle calls (compression codecs, JSON) are answered by a child process: argv[2..] is its command. *)
open Model

(* ---------- conversions between protocol tokens and Coq datatypes ---------- *)
let rec pos_of_int (i : int) : positive =
  if i = 1 then XH else if i land 1 = 0 then XO (pos_of_int (i lsr 1)) else XI (pos_of_int (i lsr 1))
let n_of_int (i : int) : n = if i = 0 then N0 else Npos (pos_of_int i)
let byte_tab : n array = Array.init 256 n_of_int
let rec int_of_pos (p : positive) : int =
  match p with XH -> 1 | XO q -> 2 * int_of_pos q | XI q -> 2 * int_of_pos q + 1
let int_of_n (x : n) : int = match x with N0 -> 0 | Npos p -> int_of_pos p

let rec nat_of_int (i : int) : nat = if i <= 0 then O else S (nat_of_int (i - 1))
let hexval c = match c with
  | '0'..'9' -> Char.code c - 48 | 'a'..'f' -> Char.code c - 87 | 'A'..'F' -> Char.code c - 55
  | _ -> failwith "bad hex"
let hexdig = "0123456789abcdef"

(* numbers: hex, most significant digit first, arbitrary size *)
let n_of_hex (s : string) : n =
  (* build the positive from the most significant bit down *)
  let acc = ref N0 in
  String.iter (fun c ->
    let v = hexval c in
    for k = 3 downto 0 do
      let bit = (v lsr k) land 1 in
      acc := (match !acc with
        | N0 -> if bit = 1 then Npos XH else N0
        | Npos p -> Npos (if bit = 1 then XI p else XO p))
    done) s;
  !acc
let hex_of_n (x : n) : string =
  match x with
  | N0 -> "0"
  | Npos p ->
    (* collect bits least significant first *)
    let bits = Buffer.create 64 in
    let rec go p = match p with
      | XH -> Buffer.add_char bits '1'
      | XO q -> Buffer.add_char bits '0'; go q
      | XI q -> Buffer.add_char bits '1'; go q in
    go p;
    let nb = Buffer.length bits in
    let nd = (nb + 3) / 4 in
    let out = Bytes.make nd '0' in
    for d = 0 to nd - 1 do
      let v = ref 0 in
      for k = 0 to 3 do
        let idx = 4 * d + k in
        if idx < nb && Buffer.nth bits idx = '1' then v := !v lor (1 lsl k)
      done;
      Bytes.set out (nd - 1 - d) hexdig.[!v]
    done;
    Bytes.to_string out

let bytes_of_hex (s : string) : n list =
  if s = "-" then [] else begin
    let len = String.length s / 2 in
    let r = ref [] in
    for i = len - 1 downto 0 do
      r := byte_tab.(hexval s.[2*i] * 16 + hexval s.[2*i+1]) :: !r
    done; !r end
let hex_of_bytes (b : n list) : string =
  if b = [] then "-" else begin
    let buf = Buffer.create 256 in
    List.iter (fun x -> let v = int_of_n x land 255 in
      Buffer.add_char buf hexdig.[v lsr 4]; Buffer.add_char buf hexdig.[v land 15]) b;
    Buffer.contents buf end

let split_on c s = if s = "-" then [] else String.split_on_char c s
let nums_of_tok s = List.map n_of_hex (split_on ',' s)
let tok_of_nums l = if l = [] then "-" else String.concat "," (List.map hex_of_n l)

let entry_of_tok s =
  match String.split_on_char '.' s with
  | [a;b;c;d] -> { e_id = n_of_hex a; e_off = n_of_hex b; e_len = n_of_hex c; e_run = n_of_hex d }
  | _ -> failwith "bad entry"
let entries_of_tok s = List.map entry_of_tok (split_on ',' s)
let tok_of_entry e = String.concat "." [hex_of_n e.e_id; hex_of_n e.e_off; hex_of_n e.e_len; hex_of_n e.e_run]
let tok_of_entries l = if l = [] then "-" else String.concat "," (List.map tok_of_entry l)

let out_str (f : 'a -> string) (o : 'a outcome) : string =
  match o with Ok a -> "ok " ^ f a | Err _ -> "err" | Crash _ -> "crash"

(* ---------- oracle child ---------- *)
let oracle_in = ref stdin
let oracle_out = ref stdout
let have_oracle = ref false
let oracle_queries = ref 0
let ask (q : string) : string =
  if not !have_oracle then failwith "no oracle" else begin
    incr oracle_queries;
    output_string !oracle_out q; output_char !oracle_out '\n'; flush !oracle_out;
    input_line !oracle_in end

(* ---------- the oracle context handed to the model ---------- *)
let comp_of_tok s = match s with
  | "unknown" -> CUnknown | "none" -> CNone | "gzip" -> CGzip | "brotli" -> CBrotli | "zstd" -> CZstd
  | _ -> failwith "bad compression"
let tok_of_comp c = match c with
  | CUnknown -> "unknown" | CNone -> "none" | CGzip -> "gzip" | CBrotli -> "brotli" | CZstd -> "zstd"
let is_async s = match s with "sync" -> false | "async" -> true | _ -> failwith "bad mode"

exception Oracle_miss of string
exception Case_timeout
let intern : (string, int) Hashtbl.t = Hashtbl.create 1024
let cx : ctx = {
  comp = (fun asy c b ->
    let a = ask (Printf.sprintf "comp %s %s %s" (if asy then "async" else "sync") (tok_of_comp c) (hex_of_bytes b)) in
    match String.split_on_char ' ' a with
    | ["ok"; h] -> bytes_of_hex h
    | _ -> raise (Oracle_miss a));
  decomp = (fun c b ->
    let a = ask (Printf.sprintf "decomp %s %s" (tok_of_comp c) (hex_of_bytes b)) in
    match String.split_on_char ' ' a with
    | [h; fl] -> (bytes_of_hex h, fl = "1")
    | _ -> raise (Oracle_miss a));
  json_parse = (fun b ->
    let a = ask (Printf.sprintf "json %s" (hex_of_bytes b)) in
    match String.split_on_char ' ' a with
    | ["err"] -> Err EJson
    | ["nonobj"] -> Ok None
    | ["obj"; h] -> Ok (Some (bytes_of_hex h))
    | _ -> raise (Oracle_miss a));
  (* an injective "hash": the index of the content among all contents seen in this run *)
  hash = (fun b ->
    let k = hex_of_bytes b in
    match Hashtbl.find_opt intern k with
    | Some i -> n_of_int i
    | None -> let i = Hashtbl.length intern + 1 in Hashtbl.add intern k i; n_of_int i);
  drop_tail = (fun c b ->
    let a = ask (Printf.sprintf "tail %s %s" (tok_of_comp c) (hex_of_bytes b)) in
    n_of_hex a);
}

(* ---------- more conversions ---------- *)
let z_of_hex (s : string) : z = match n_of_hex s with N0 -> Z0 | Npos p -> Zpos p
let hex_of_z (x : z) : string = match x with Z0 -> "0" | Zpos p -> hex_of_n (Npos p) | Zneg p -> "-" ^ hex_of_n (Npos p)
let f64_of_tok s = f64_of_bits (z_of_hex s)
let tok_of_f64 f = hex_of_z (bits_of_f64 f)
let ttype_of_tok s = match ttype_of_code (n_of_hex s) with Ok t -> t | _ -> failwith "bad tile type"
let tok_of_ttype t = hex_of_n (ttype_code t)
let compc_of_tok s = match comp_of_code (n_of_hex s) with Ok t -> t | _ -> failwith "bad compression code"
let tok_of_compc c = hex_of_n (comp_code c)
let bound_of_tok s =
  if s = "u" then Unb else
  let v = n_of_hex (String.sub s 1 (String.length s - 1)) in
  if s.[0] = 'i' then Incl v else if s.[0] = 'e' then Excl v else failwith "bad bound"
let range_of_tok s = match String.split_on_char '_' s with
  | [a; b] -> { r_start = bound_of_tok a; r_end = bound_of_tok b }
  | _ -> failwith "bad range"
let kind (o : 'a outcome) : string = match o with Ok _ -> "ok" | Err _ -> "err" | Crash _ -> "crash"

let cmp_n (a : n) (b : n) : int = compare (int_of_n a) (int_of_n b)   (* ids < 2^62 in sorted outputs, else hex compare *)
let cmp_hexnum (a : string) (b : string) : int =
  let la = String.length a and lb = String.length b in
  if la <> lb then compare la lb else compare a b
let sort_ids (l : n list) : string list = List.sort cmp_hexnum (List.map hex_of_n l)

(* canonical operation log: writes and seeks only, contiguous writes merged *)
let log_tok (evs : event list) : string =
  let items = ref [] in   (* reversed list of (`W (pos,len) | `S pos) *)
  List.iter (fun e -> match e with
    | EvWrite (_, pos, bs) ->
      let p = int_of_n pos and l = List.length bs in
      (match !items with
       | `W (p0, l0) :: r when p0 + l0 = p -> items := `W (p0, l0 + l) :: r
       | _ -> items := `W (p, l) :: !items)
    | EvSeek pos -> items := `S (int_of_n pos) :: !items
    | _ -> ()) evs;
  let strs = List.rev_map (fun it -> match it with
    | `W (p, l) -> Printf.sprintf "w%x+%x" p l
    | `S p -> Printf.sprintf "s%x" p) !items in
  if strs = [] then "-" else String.concat "." strs

let hdr_fields_tok (h : header) : string =
  String.concat " " ([hex_of_n h.h_version; hex_of_n h.h_root_off; hex_of_n h.h_root_len; hex_of_n h.h_meta_off;
    hex_of_n h.h_meta_len; hex_of_n h.h_leaf_off; hex_of_n h.h_leaf_len; hex_of_n h.h_data_off; hex_of_n h.h_data_len;
    hex_of_n h.h_addressed; hex_of_n h.h_entries; hex_of_n h.h_contents; (if h.h_clustered then "1" else "0");
    tok_of_compc h.h_icomp; tok_of_compc h.h_tcomp; tok_of_ttype h.h_ttype; hex_of_n h.h_minz; hex_of_n h.h_maxz;
    tok_of_f64 h.h_min_lon; tok_of_f64 h.h_min_lat; tok_of_f64 h.h_max_lon; tok_of_f64 h.h_max_lat;
    hex_of_n h.h_cz; tok_of_f64 h.h_clon; tok_of_f64 h.h_clat])
let hdr_of_toks (t : string list) : header =
  match t with
  | [v; ro; rl; mo; ml; lo; ll; d_o; dl; ad; en; co; cl; ic; tc; tt; minz; maxz; f1; f2; f3; f4; cz; f5; f6] ->
    { h_version = n_of_hex v; h_root_off = n_of_hex ro; h_root_len = n_of_hex rl; h_meta_off = n_of_hex mo;
      h_meta_len = n_of_hex ml; h_leaf_off = n_of_hex lo; h_leaf_len = n_of_hex ll; h_data_off = n_of_hex d_o;
      h_data_len = n_of_hex dl; h_addressed = n_of_hex ad; h_entries = n_of_hex en; h_contents = n_of_hex co;
      h_clustered = (cl = "1"); h_icomp = compc_of_tok ic; h_tcomp = compc_of_tok tc; h_ttype = ttype_of_tok tt;
      h_minz = n_of_hex minz; h_maxz = n_of_hex maxz; h_min_lon = f64_of_tok f1; h_min_lat = f64_of_tok f2;
      h_max_lon = f64_of_tok f3; h_max_lat = f64_of_tok f4; h_cz = n_of_hex cz; h_clon = f64_of_tok f5;
      h_clat = f64_of_tok f6 }
  | _ -> failwith "bad header fields"

let tiles_tok (l : (n * (n * n)) list) : string =
  if l = [] then "-" else
  let items = List.map (fun (id, (off, len)) -> (hex_of_n id, hex_of_n id ^ ":" ^ hex_of_n off ^ ":" ^ hex_of_n len)) l in
  let items = List.sort (fun (a, _) (b, _) -> cmp_hexnum a b) items in
  String.concat "," (List.map snd items)

(* ---------- histories ---------- *)
let op_of_tok (s : string) : op =
  match String.split_on_char ':' s with
  | ["a"; id; d] -> OAdd (n_of_hex id, bytes_of_hex d)
  | ["r"; id] -> ORemove (n_of_hex id)
  | ["g"; id] -> OGet (n_of_hex id)
  | ["x"; x; y; z] -> OXyz (n_of_hex x, n_of_hex y, n_of_hex z)
  | ["l"] -> OList
  | ["n"] -> OCount
  | ["s"; w; _r] -> OSave (w = "a")
  | ["o"; _r; rg; b] -> OOpen (range_of_tok rg, bytes_of_hex b)
  | ["w"; m; pos; pre] -> OWriteAt (m = "a", n_of_hex pos, bytes_of_hex pre)
  | ["c"; c] -> OSetComp (comp_of_tok c)
  | ["m"; m] -> OSetMeta (bytes_of_hex m)
  | ["h"; tt; tc; minz; maxz; cz; f1; f2; f3; f4; f5; f6] ->
    OSetHdr (ttype_of_tok tt, compc_of_tok tc, n_of_hex minz, n_of_hex maxz, n_of_hex cz,
             f64_of_tok f1, f64_of_tok f2, f64_of_tok f3, f64_of_tok f4, f64_of_tok f5, f64_of_tok f6)
  | ["q"] -> OGetHdr
  | ["p"] -> OSnap
  | _ -> failwith ("bad op " ^ s)

let tile_res_tok (r : bytes option outcome) : string =
  match r with
  | Ok None -> "none"
  | Ok (Some b) -> "t" ^ hex_of_bytes b
  | Err _ -> "err"
  | Crash _ -> "crash"

let snap_tok (ids : (n * tile) list) (data : (n * bytes) list) (refs : (n * n list) list) : string =
  let content h = match aget h data with Some b -> hex_of_bytes b | None -> "?" ^ hex_of_n h in
  let t = List.map (fun (id, t) ->
    (hex_of_n id, hex_of_n id ^ "=" ^ (match t with THash h -> content h | TOffLen (o, l) -> "@" ^ hex_of_n o ^ "+" ^ hex_of_n l))) ids in
  let t = List.map snd (List.sort (fun (a, _) (b, _) -> cmp_hexnum a b) t) in
  let d = List.sort compare (List.map (fun (_, b) -> hex_of_bytes b) data) in
  let r = List.sort compare (List.map (fun (h, l) -> content h ^ "=" ^ String.concat "+" (sort_ids l)) refs) in
  let j l = if l = [] then "-" else String.concat "," l in
  "P" ^ j t ^ "/" ^ j d ^ "/" ^ j r

let out_tok (o : out) : string =
  match o with
  | RUnit -> "-"
  | RRes r -> kind r
  | RTile r -> tile_res_tok r
  | RIds l -> "L" ^ (let s = sort_ids l in if s = [] then "-" else String.concat "," s)
  | RCount n -> "N" ^ hex_of_n n
  | RSaved (b, r) -> "S" ^ (match b with Ok b -> hex_of_bytes b | Err _ -> "err" | Crash _ -> "crash") ^ "," ^ kind r
  | RStream r -> (match r with
      | Ok ((img, pos), log) -> "W" ^ hex_of_bytes img ^ "," ^ hex_of_n pos ^ "," ^ log_tok log
      | Err _ -> "err" | Crash _ -> "crash")
  | RHdr p -> "H" ^ String.concat ":" [tok_of_ttype p.p_ttype; tok_of_compc p.p_tcomp; tok_of_compc p.p_icomp;
      hex_of_n p.p_minz; hex_of_n p.p_maxz; hex_of_n p.p_cz; tok_of_f64 p.p_min_lon; tok_of_f64 p.p_min_lat;
      tok_of_f64 p.p_max_lon; tok_of_f64 p.p_max_lat; tok_of_f64 p.p_clon; tok_of_f64 p.p_clat; hex_of_bytes p.p_meta]
  | RSnap (a, b, c) -> snap_tok a b c

(* ---------- dispatch ---------- *)
let run_case (toks : string list) : string =
  match toks with
  | ["varint_enc"; v] -> "ok " ^ hex_of_bytes (write_varint (n_of_hex v))
  | ["varint_dec64"; b] ->
    out_str (fun (v, r) -> hex_of_n v ^ " " ^ hex_of_bytes r) (read_varint64 (bytes_of_hex b))
  | ["varint_dec32"; b] ->
    out_str (fun (v, r) -> hex_of_n v ^ " " ^ hex_of_bytes r) (read_varint32 (bytes_of_hex b))
  | ["dir_dec_plain"; b] -> out_str tok_of_entries (decode_dir_plain (bytes_of_hex b))
  | ["dir_enc_plain"; es] -> out_str hex_of_bytes (encode_dir_plain (entries_of_tok es))
  | ["dir_spec_enc"; es] -> "ok " ^ hex_of_bytes (spec_encode_dir (entries_of_tok es))
  | ["dir_valid"; es] -> "ok " ^ (if valid_dirb (entries_of_tok es) then "1" else "0")
  | ["dir_dec"; _mode; c; b] -> out_str tok_of_entries (decode_dir cx (comp_of_tok c) (bytes_of_hex b))
  | ["dir_enc"; mode; c; es] ->
    out_str hex_of_bytes (encode_dir cx (is_async mode) (comp_of_tok c) (entries_of_tok es))
  | ["dir_find"; es; id] ->
    out_str (fun o -> match o with None -> "none" | Some e -> tok_of_entry e)
      (find_entry (entries_of_tok es) (n_of_hex id))
  | ["tid"; z; x; y] -> out_str hex_of_n (tile_id (n_of_hex z) (n_of_hex x) (n_of_hex y))
  | ["zxy"; id] -> out_str (fun ((z, x), y) -> hex_of_n z ^ " " ^ hex_of_n x ^ " " ^ hex_of_n y) (zxy max_z (n_of_hex id))
  | ["hspec"; z; x; y] -> "ok " ^ hex_of_n (spec_tile_id (n_of_hex z) (n_of_hex x) (n_of_hex y))
  | ["hdr_dec"; _mode; b] ->
    out_str (fun (h, rest) -> hdr_fields_tok h ^ " " ^ Printf.sprintf "%x" (List.length rest)) (decode_header (bytes_of_hex b))
  | "hdr_enc" :: _mode :: fields -> out_str hex_of_bytes (encode_header (hdr_of_toks fields))
  | ["coord_enc"; f] -> "ok " ^ hex_of_z (stored_of_deg (f64_of_tok f))
  | ["coord_dec"; i] ->
    let zi = (if String.length i > 0 && i.[0] = '-' then (match z_of_hex (String.sub i 1 (String.length i - 1)) with Zpos p -> Zneg p | z -> z) else z_of_hex i) in
    "ok " ^ tok_of_f64 (deg_of_stored zi)
  | ["wdirs"; mode; c; ss; pos; pre; es] ->
    let start = if ss = "-" then None else Some (n_of_hex ss) in
    out_str (fun (st, leaf) -> hex_of_bytes st.ws_img ^ " " ^ hex_of_n st.ws_pos ^ " " ^ hex_of_bytes leaf)
      (write_directories cx (is_async mode) (comp_of_tok c) (entries_of_tok es) start
         { ws_img = bytes_of_hex pre; ws_pos = n_of_hex pos; ws_log = [] })
  | ["rdirs"; _mode; c; ro; rl; lo; rg; img] ->
    out_str tiles_tok (read_directories cx (comp_of_tok c) (bytes_of_hex img) (n_of_hex ro) (n_of_hex rl) (n_of_hex lo) (range_of_tok rg))
  | ["slook"; c; ro; rl; lo; id; img] ->
    (* the specification's lookup procedure (SpecLookup.v), at most 3 levels of leaves below the root *)
    out_str (fun r -> match r with None -> "none" | Some (o, l) -> hex_of_n o ^ ":" ^ hex_of_n l)
      (spec_lookup cx (comp_of_tok c) (bytes_of_hex img) (n_of_hex lo) (nat_of_int 4) (n_of_hex ro) (n_of_hex rl) (n_of_hex id))
  | ["io_read_exact"; _mode; n; pos; sched; img] ->
    let nn = n_of_hex n in
    out_str (fun (b, s') -> hex_of_bytes b ^ " " ^ hex_of_n s'.rd_pos)
      (read_exact (nat_of_int (int_of_n nn + 1)) nn { rd_img = bytes_of_hex img; rd_pos = n_of_hex pos; rd_sched = nums_of_tok sched; rd_log = [] })
  | ["io_read_to_end"; _mode; limit; pos; sched; img] ->
    let im = bytes_of_hex img in
    out_str (fun (b, _) -> hex_of_bytes b)
      (read_to_end (nat_of_int (List.length im + 2)) (n_of_int 32) (n_of_hex limit) { rd_img = im; rd_pos = n_of_hex pos; rd_sched = nums_of_tok sched; rd_log = [] })
  | ["io_write_all"; _mode; pos; sched; pre; bs] ->
    let b = bytes_of_hex bs in
    out_str (fun w -> hex_of_bytes w.wr_st.ws_img ^ " " ^ hex_of_n w.wr_st.ws_pos)
      (write_all (nat_of_int (List.length b + 1)) b { wr_st = { ws_img = bytes_of_hex pre; ws_pos = n_of_hex pos; ws_log = [] }; wr_sched = nums_of_tok sched })
  | ["owin"; _mode; rg; img] ->
    out_str (fun ws ->
      (* merged, sorted, non-empty byte ranges *)
      let rs = List.filter (fun (a, b) -> b > a) (List.map (fun (o, l) -> (int_of_n o, int_of_n o + int_of_n l)) ws) in
      let rs = List.sort compare rs in
      let rec merge acc l = match acc, l with
        | _, [] -> List.rev acc
        | (a, b) :: t, (c, d) :: r when c <= b -> merge ((a, max b d) :: t) r
        | _, x :: r -> merge (x :: acc) r in
      let m = merge [] rs in
      if m = [] then "-" else String.concat "," (List.map (fun (a, b) -> Printf.sprintf "%x-%x" a b) m))
      (open_windows cx (bytes_of_hex img) (range_of_tok rg))
  | ["hist"; _mode; ops] ->
    let ops = List.map op_of_tok (String.split_on_char ';' ops) in
    let (_, outs) = run cx (pm_new None) ops in
    "ok " ^ String.concat "|" (List.map out_tok outs)
  | op :: _ -> "unsupported " ^ op
  | [] -> "unsupported"

let () =
  Sys.set_signal Sys.sigalrm (Sys.Signal_handle (fun _ -> raise Case_timeout));
  let ic = if Array.length Sys.argv > 1 && Sys.argv.(1) <> "-" then open_in Sys.argv.(1) else stdin in
  if Array.length Sys.argv > 2 then begin
    let cmd = String.concat " " (Array.to_list (Array.sub Sys.argv 2 (Array.length Sys.argv - 2))) in
    let (i, o) = Unix.open_process cmd in
    oracle_in := i; oracle_out := o; have_oracle := true
  end;
  (try
    while true do
      let line = input_line ic in
      if String.length line > 0 && line.[0] <> '#' then begin
        match String.split_on_char ' ' line with
        | id :: toks ->
          let res = (try
              ignore (Unix.alarm 60);
              let r = run_case toks in
              ignore (Unix.alarm 0); r
            with
            | Case_timeout -> "unsupported model-timeout"
            | Stack_overflow -> "driver-stack-overflow"
            | Oracle_miss m -> "driver-oracle-miss " ^ m
            | Failure m -> "driver-failure " ^ m
            | Not_found -> "driver-failure not_found") in
          print_string id; print_char ' '; print_string res; print_newline ()
        | [] -> ()
      end
    done
  with End_of_file -> ());
  flush stdout
